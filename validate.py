#!/opt/veriftools/pyvenv/bin/python
"""Validate MANIFEST.json and all evidence files against the schemas (uses the tooling venv's jsonschema)."""
import json, sys, glob, jsonschema
ok = True
try:
    jsonschema.validate(json.load(open('/verif/MANIFEST.json')), json.load(open('/root/.vp/MANIFEST.schema.json')))
    print("MANIFEST.json valid")
except Exception as e:
    print("MANIFEST invalid:", e); ok = False
es = json.load(open('/root/.vp/EVIDENCE.schema.json'))
for f in sorted(glob.glob('/verif/evidence/*.json')):
    try:
        jsonschema.validate(json.load(open(f)), es); print(f, "valid")
    except Exception as e:
        print(f, "INVALID:", str(e)[:300]); ok = False
sys.exit(0 if ok else 1)
