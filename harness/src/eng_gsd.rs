//! C19 — the GSD parser never panics and reproduces what the file says.
//!
//! (a) random station models are rendered by a pretty-printer with lexical variation (keyword case,
//!     blanks/tabs, `;` comments, `\` line continuations, LF/CRLF, text before `#Profibus_DP`,
//!     decimal/hex numbers) and the parsed description must equal the model field by field;
//! (b) grammar-aware mutants of those texts and of the shipped mock.gsd, and (c) random bytes must
//!     give `Ok` or `Err`, never a panic.

use crate::util::*;
use crate::{Ctx, Tier};
use gsd_parser::{
    GenericStationDescription, Module, PrmValueConstraint, Slot, SupportedSpeeds, UnitDiagArea, UserPrmData, UserPrmDataDefinition,
    UserPrmDataType as T,
};
use std::collections::BTreeMap;
use std::path::Path;
use std::sync::Arc;

// ------------------------------------------------------------------------------------------------
// Lexical variation
// ------------------------------------------------------------------------------------------------

struct Lex<'a> {
    rng: &'a mut Rng,
    crlf: bool,
    /// 0 = plain, 1 = some variation, 2 = heavy variation
    level: u8,
}

impl<'a> Lex<'a> {
    fn nl(&mut self) -> String {
        let mut s = String::new();
        if self.level > 0 && self.rng.chance(1, 6) {
            s.push_str(&self.ws());
            s.push_str("; a comment ; with \"quotes\" = and (parens)");
        }
        s.push_str(if self.crlf { "\r\n" } else { "\n" });
        // blank / comment-only lines
        while self.level > 0 && self.rng.chance(1, 8) {
            if self.rng.bool() {
                s.push_str(&self.ws());
                s.push_str(";---- section ----");
            }
            s.push_str(if self.crlf { "\r\n" } else { "\n" });
        }
        s
    }
    /// optional whitespace
    fn ws(&mut self) -> String {
        if self.level == 0 {
            return " ".into();
        }
        match self.rng.usize(6) {
            0 => String::new(),
            1 => " ".into(),
            2 => "\t".into(),
            3 => "  \t ".into(),
            4 if self.level > 1 => format!(" \\{}  ", if self.crlf { "\r\n" } else { "\n" }),
            _ => " ".into(),
        }
    }
    /// whitespace that must not be empty? (never needed: all tokens are delimited by punctuation)
    fn kw(&mut self, k: &str) -> String {
        if self.level == 0 {
            return k.to_string();
        }
        match self.rng.usize(4) {
            0 => k.to_string(),
            1 => k.to_uppercase(),
            2 => k.to_lowercase(),
            _ => k
                .chars()
                .map(|c| if self.rng.bool() { c.to_ascii_uppercase() } else { c.to_ascii_lowercase() })
                .collect(),
        }
    }
    fn num(&mut self, v: u64) -> String {
        if self.level > 0 && self.rng.chance(1, 3) {
            if self.rng.bool() {
                format!("0x{:X}", v)
            } else {
                format!("0x{:02x}", v)
            }
        } else if self.level > 1 && self.rng.chance(1, 10) {
            format!("{:03}", v)
        } else {
            format!("{}", v)
        }
    }
    fn snum(&mut self, v: i64) -> String {
        if v >= 0 {
            self.num(v as u64)
        } else {
            format!("{}", v)
        }
    }
    fn string(&mut self, s: &str) -> String {
        // long-line marker inside a string is removed by the parser
        if self.level > 1 && s.len() > 3 && self.rng.chance(1, 6) {
            let cut = 1 + self.rng.usize(s.len() - 1);
            if s.is_char_boundary(cut) {
                return format!("\"{}\\{}{}\"", &s[..cut], if self.crlf { "\r\n" } else { "\n" }, &s[cut..]);
            }
        }
        format!("\"{}\"", s)
    }
    fn list(&mut self, v: &[u8]) -> String {
        let mut s = String::new();
        for (i, b) in v.iter().enumerate() {
            if i > 0 {
                s.push_str(&self.ws());
                s.push(',');
                if self.level > 0 && self.rng.chance(1, 7) {
                    s.push_str(&format!("\\{}", if self.crlf { "\r\n" } else { "\n" }));
                }
                s.push_str(&self.ws());
            }
            s.push_str(&self.num(*b as u64));
        }
        s
    }
    fn assign(&mut self, key: &str, val: &str) -> String {
        format!("{}{}={}{}{}", self.kw(key), self.ws(), self.ws(), val, self.nl())
    }
    fn assign_arg(&mut self, key: &str, arg: u64, val: &str) -> String {
        format!("{}{}({}{}{}){}={}{}{}", self.kw(key), self.ws(), self.ws(), self.num(arg), self.ws(), self.ws(), self.ws(), val, self.nl())
    }
}

fn rand_text(rng: &mut Rng) -> String {
    const WORDS: [&str; 14] = ["Input", "Output", "8 Bit", "Module", "Ölüberwachung", "4-20mA", "a;b", "x=y", "(1)", "Prm", "Kanal 3", "#1", "Diag", "0x10"];
    let n = 1 + rng.usize(3);
    (0..n).map(|_| *rng.pick(&WORDS)).collect::<Vec<_>>().join(" ")
}

// ------------------------------------------------------------------------------------------------
// Model generation + rendering
// ------------------------------------------------------------------------------------------------

struct Generated {
    text: String,
    expected: GenericStationDescription,
}

fn gen_def(rng: &mut Rng, texts: &BTreeMap<u16, Arc<BTreeMap<String, i64>>>) -> (UserPrmDataDefinition, Option<u16>) {
    let t = match rng.usize(9) {
        0 => T::Unsigned8,
        1 => T::Unsigned16,
        2 => T::Unsigned32,
        3 => T::Signed8,
        4 => T::Signed16,
        5 => T::Signed32,
        6 => T::Bit(rng.usize(8) as u8),
        _ => {
            let a = rng.usize(8) as u8;
            T::BitArea(a, a + rng.usize(8 - a as usize) as u8)
        }
    };
    let signed = matches!(t, T::Signed8 | T::Signed16 | T::Signed32);
    let (lo, hi): (i64, i64) = match t {
        T::Unsigned8 => (0, 255),
        T::Unsigned16 => (0, 65535),
        T::Unsigned32 => (0, 100000),
        T::Signed8 => (-128, 127),
        T::Signed16 => (-32768, 32767),
        T::Signed32 => (-100000, 100000),
        T::Bit(_) => (0, 1),
        T::BitArea(a, b) => (0, (1 << (b - a + 1)) - 1),
    };
    let _ = signed;
    let constraint = match rng.usize(3) {
        0 => PrmValueConstraint::Unconstrained,
        1 => {
            let a = rng.range(lo, hi);
            PrmValueConstraint::MinMax(a, rng.range(a, hi))
        }
        _ => PrmValueConstraint::Enum((0..1 + rng.usize(4)).map(|_| rng.range(lo, hi)).collect()),
    };
    let text_id = if !texts.is_empty() && rng.chance(1, 3) { Some(*rng.pick(&texts.keys().copied().collect::<Vec<_>>())) } else { None };
    (
        UserPrmDataDefinition {
            name: rand_text(rng),
            data_type: t,
            default_value: rng.range(lo, hi),
            constraint,
            text_ref: text_id.map(|i| texts[&i].clone()),
            changeable: if rng.chance(1, 3) { rng.bool() } else { true },
            visible: if rng.chance(1, 3) { rng.bool() } else { true },
        },
        text_id,
    )
}

fn type_text(lex: &mut Lex, t: T) -> String {
    match t {
        T::Unsigned8 => lex.kw("Unsigned8"),
        T::Unsigned16 => lex.kw("Unsigned16"),
        T::Unsigned32 => lex.kw("Unsigned32"),
        T::Signed8 => lex.kw("Signed8"),
        T::Signed16 => lex.kw("Signed16"),
        T::Signed32 => lex.kw("Signed32"),
        T::Bit(b) => format!("{}{}({}{}{})", lex.kw("Bit"), lex.ws(), lex.ws(), lex.num(b as u64), lex.ws()),
        T::BitArea(a, b) => format!("{}{}({}{}-{}{})", lex.kw("BitArea"), lex.ws(), lex.num(a as u64), lex.ws(), lex.ws(), lex.num(b as u64)),
    }
}

fn generate(rng: &mut Rng, level: u8) -> Generated {
    let crlf = rng.chance(1, 3);
    let mut e = GenericStationDescription::default();
    let mut out = String::new();
    let mut lexrng = Rng::new(rng.next_u64());
    let mut lex = Lex { rng: &mut lexrng, crlf, level };

    // text before the marker
    if level > 0 && rng.chance(1, 2) {
        out.push_str("; generated GSD file\r\nsome arbitrary text = before \"the marker\n\n  #Profibus_DPx is not the marker\n");
    }
    out.push_str(&format!("#{}{}", lex.kw("Profibus_DP"), if crlf { "\r\n" } else { "\n" }));
    if rng.bool() {
        out.push_str(&lex.nl());
    }

    // top-level scalar settings, emitted in random order
    let mut lines: Vec<String> = Vec::new();
    macro_rules! num_setting {
        ($key:expr, $field:expr, $max:expr, $p:expr) => {
            if rng.chance($p, 10) {
                let v = rng.below($max as u64 + 1);
                $field = v.try_into().unwrap();
                let t = lex.num(v);
                lines.push(lex.assign($key, &t));
            }
        };
    }
    macro_rules! bool_setting {
        ($key:expr, $field:expr) => {
            if rng.chance(6, 10) {
                let v = rng.below(3);
                $field = v != 0;
                let t = lex.num(v);
                lines.push(lex.assign($key, &t));
            }
        };
    }
    macro_rules! str_setting {
        ($key:expr, $field:expr) => {
            if rng.chance(7, 10) {
                let v = rand_text(rng);
                let t = lex.string(&v);
                lines.push(lex.assign($key, &t));
                $field = v;
            }
        };
    }
    num_setting!("GSD_Revision", e.gsd_revision, 255u64, 9);
    str_setting!("Vendor_Name", e.vendor);
    str_setting!("Model_Name", e.model);
    str_setting!("Revision", e.revision);
    num_setting!("Revision_Number", e.revision_number, 255u64, 5);
    num_setting!("Ident_Number", e.ident_number, 65535u64, 9);
    str_setting!("Hardware_Release", e.hardware_release);
    str_setting!("Software_Release", e.software_release);
    str_setting!("Implementation_Type", e.implementation_type);
    bool_setting!("Fail_Safe", e.fail_safe);
    bool_setting!("Freeze_Mode_supp", e.freeze_mode_supported);
    bool_setting!("Sync_Mode_supp", e.sync_mode_supported);
    bool_setting!("Auto_Baud_supp", e.auto_baud_supported);
    bool_setting!("Set_Slave_Add_supp", e.set_slave_addr_supported);
    num_setting!("Max_Input_Len", e.max_input_length, 255u64, 6);
    num_setting!("Max_Output_Len", e.max_output_length, 255u64, 6);
    num_setting!("Max_Data_Len", e.max_data_length, 65535u64, 6);
    num_setting!("Max_Diag_Data_Len", e.max_diag_data_length, 255u64, 6);
    let speeds: [(&str, SupportedSpeeds); 11] = [
        ("9.6_supp", SupportedSpeeds::B9600),
        ("19.2_supp", SupportedSpeeds::B19200),
        ("31.25_supp", SupportedSpeeds::B31250),
        ("45.45_supp", SupportedSpeeds::B45450),
        ("93.75_supp", SupportedSpeeds::B93750),
        ("187.5_supp", SupportedSpeeds::B187500),
        ("500_supp", SupportedSpeeds::B500000),
        ("1.5M_supp", SupportedSpeeds::B1500000),
        ("3M_supp", SupportedSpeeds::B3000000),
        ("6M_supp", SupportedSpeeds::B6000000),
        ("12M_supp", SupportedSpeeds::B12000000),
    ];
    for (k, f) in speeds {
        if rng.chance(6, 10) {
            let v = rng.below(2);
            if v != 0 {
                e.supported_speeds |= f;
            }
            let t = lex.num(v);
            lines.push(lex.assign(k, &t));
        }
    }
    {
        let m = &mut e.max_tsdr;
        let fields: [(&str, &mut u16); 11] = [
            ("MaxTsdr_9.6", &mut m.b9600),
            ("MaxTsdr_19.2", &mut m.b19200),
            ("MaxTsdr_31.25", &mut m.b31250),
            ("MaxTsdr_45.45", &mut m.b45450),
            ("MaxTsdr_93.75", &mut m.b93750),
            ("MaxTsdr_187.5", &mut m.b187500),
            ("MaxTsdr_500", &mut m.b500000),
            ("MaxTsdr_1.5M", &mut m.b1500000),
            ("MaxTsdr_3M", &mut m.b3000000),
            ("MaxTsdr_6M", &mut m.b6000000),
            ("MaxTsdr_12M", &mut m.b12000000),
        ];
        for (k, f) in fields {
            if rng.chance(5, 10) {
                let v = rng.below(65536);
                *f = v as u16;
                let t = lex.num(v);
                lines.push(lex.assign(k, &t));
            }
        }
    }
    // settings the parser ignores
    if rng.bool() {
        lines.push(lex.assign("Slave_Family", "3@TdF@Digital"));
    }
    if rng.bool() {
        let t = lex.string("bitmap_N");
        lines.push(lex.assign("Bitmap_Device", &t));
    }
    if rng.bool() {
        lines.push(lex.assign("Min_Slave_Intervall", "0x0A"));
    }
    if rng.bool() {
        lines.push(lex.assign("Protocol_Ident", "0"));
    }
    // unit diag bits
    let mut used_diag: Vec<(u64, usize)> = Vec::new();
    for _ in 0..rng.usize(4) {
        let bit = rng.below(64);
        let which = rng.usize(4);
        // the scalar lines are shuffled afterwards, so every (kind, bit) is written at most once
        if used_diag.contains(&(bit, which)) {
            continue;
        }
        used_diag.push((bit, which));
        let text = rand_text(rng);
        let key = ["Unit_Diag_Bit", "Unit_Diag_Bit_Help", "Unit_Diag_Not_Bit", "Unit_Diag_Not_Bit_Help"][which];
        let t = lex.string(&text);
        lines.push(lex.assign_arg(key, bit, &t));
        match which {
            0 => e.unit_diag.bits.entry(bit as u32).or_default().text = text,
            1 => e.unit_diag.bits.entry(bit as u32).or_default().help = Some(text),
            2 => e.unit_diag.not_bits.entry(bit as u32).or_default().text = text,
            _ => e.unit_diag.not_bits.entry(bit as u32).or_default().help = Some(text),
        }
    }
    // modular / max_module
    let modular = rng.bool();
    let has_modular = rng.chance(8, 10);
    let has_max_module = rng.chance(6, 10);
    let max_module_val = if modular { 1 + rng.below(60) } else { 1 };
    if has_modular {
        let t = lex.num(modular as u64);
        lines.push(lex.assign("Modular_Station", &t));
        e.modular_station = modular;
    }
    if has_max_module {
        let t = lex.num(max_module_val);
        lines.push(lex.assign("Max_Module", &t));
    }
    e.max_modules = if e.modular_station && has_max_module { max_module_val as u8 } else { 1 };

    rng.shuffle(&mut lines);

    // structured part in definition-before-use order, interleaved with the scalar lines
    let mut blocks: Vec<String> = Vec::new();

    // PrmText tables
    let mut texts: BTreeMap<u16, Arc<BTreeMap<String, i64>>> = BTreeMap::new();
    for _ in 0..rng.usize(3) {
        let id = rng.below(200) as u16;
        let mut m = BTreeMap::new();
        let mut s = format!("{}{}={}{}{}", lex.kw("PrmText"), lex.ws(), lex.ws(), lex.num(id as u64), lex.nl());
        for _ in 0..1 + rng.usize(4) {
            let n = rng.range(-5, 300);
            let t = format!("{} {}", rand_text(rng), m.len());
            s.push_str(&format!("{}{}({}{}{}){}={}{}{}", lex.kw("Text"), lex.ws(), lex.ws(), lex.snum(n), lex.ws(), lex.ws(), lex.ws(), lex.string(&t), lex.nl()));
            m.insert(t, n);
        }
        s.push_str(&format!("{}{}", lex.kw("EndPrmText"), lex.nl()));
        texts.insert(id, Arc::new(m));
        blocks.push(s);
    }
    // ExtUserPrmData definitions
    let mut defs: BTreeMap<u32, Arc<UserPrmDataDefinition>> = BTreeMap::new();
    for _ in 0..rng.usize(5) {
        let id = rng.below(500) as u32;
        let (def, text_id) = gen_def(rng, &texts);
        let mut s = format!("{}{}={}{}{}{}{}", lex.kw("ExtUserPrmData"), lex.ws(), lex.ws(), lex.num(id as u64), lex.ws(), lex.string(&def.name), lex.nl());
        s.push_str(&format!("{} {}", type_text(&mut lex, def.data_type), lex.snum(def.default_value)));
        match &def.constraint {
            PrmValueConstraint::Unconstrained => {}
            PrmValueConstraint::MinMax(a, b) => s.push_str(&format!(" {}{}-{}{}", lex.snum(*a), lex.ws(), lex.ws(), lex.snum(*b))),
            PrmValueConstraint::Enum(v) => {
                s.push(' ');
                for (i, x) in v.iter().enumerate() {
                    if i > 0 {
                        s.push_str(&format!("{},{}", lex.ws(), lex.ws()));
                    }
                    s.push_str(&lex.snum(*x));
                }
            }
        }
        s.push_str(&lex.nl());
        if let Some(t) = text_id {
            s.push_str(&format!("{}{}={}{}{}", lex.kw("Prm_Text_Ref"), lex.ws(), lex.ws(), lex.num(t as u64), lex.nl()));
        }
        if !def.changeable || rng.chance(1, 4) {
            s.push_str(&format!("{}{}={}{}{}", lex.kw("Changeable"), lex.ws(), lex.ws(), lex.num(def.changeable as u64), lex.nl()));
        }
        if !def.visible || rng.chance(1, 4) {
            s.push_str(&format!("{}{}={}{}{}", lex.kw("Visible"), lex.ws(), lex.ws(), lex.num(def.visible as u64), lex.nl()));
        }
        s.push_str(&format!("{}{}", lex.kw("EndExtUserPrmData"), lex.nl()));
        defs.insert(id, Arc::new(def));
        blocks.push(s);
    }
    let def_ids: Vec<u32> = defs.keys().copied().collect();

    // top-level user prm data: legacy or extended style
    let mut prm_lines: Vec<String> = Vec::new();
    if rng.chance(1, 3) {
        // legacy
        let data = rng.bytes(rng.clone().usize(6));
        let len = data.len() as u64 + rng.below(3);
        let mut prm = UserPrmData::default();
        if rng.chance(4, 5) {
            let t = lex.num(len);
            prm_lines.push(lex.assign("User_Prm_Data_Len", &t));
            prm.length = len as u8;
        }
        if !data.is_empty() && rng.chance(4, 5) {
            let t = lex.list(&data);
            prm_lines.push(lex.assign("User_Prm_Data", &t));
            prm.data_const.push((0, data));
        }
        e.user_prm_data = prm;
    } else {
        let mut prm = UserPrmData::default();
        if rng.bool() {
            let t = lex.num(rng.below(200));
            prm_lines.push(lex.assign("Max_User_Prm_Data_Len", &t));
        }
        for _ in 0..rng.usize(3) {
            let off = rng.below(12);
            let data = rng.bytes(1 + rng.clone().usize(5));
            let t = lex.list(&data);
            prm_lines.push(lex.assign_arg("Ext_User_Prm_Data_Const", off, &t));
            prm.data_const.push((off as usize, data));
        }
        if !def_ids.is_empty() {
            for _ in 0..rng.usize(4) {
                let off = rng.below(12);
                let id = *rng.pick(&def_ids);
                let t = lex.num(id as u64);
                prm_lines.push(lex.assign_arg("Ext_User_Prm_Data_Ref", off, &t));
                prm.data_ref.push((off as usize, defs[&id].clone()));
            }
        }
        if prm_lines.is_empty() {
            // nothing extended was written: the legacy (empty) block applies, which is the default
        }
        e.user_prm_data = prm;
    }
    blocks.push(prm_lines.concat());

    // modules
    let nmod = if e.modular_station { rng.usize(5) } else { rng.usize(3) };
    let mut used_refs: Vec<u32> = Vec::new();
    for _ in 0..nmod {
        let mut m = Module {
            name: rand_text(rng),
            config: rng.bytes(1 + rng.clone().usize(6)),
            ..Default::default()
        };
        let mut s = format!("{}{}={}{}{} {}{}", lex.kw("Module"), lex.ws(), lex.ws(), lex.string(&m.name), lex.ws(), lex.list(&m.config), lex.nl());
        let mut pre: Vec<String> = Vec::new();
        let mut post: Vec<String> = Vec::new();
        if rng.chance(1, 2) {
            let len = rng.below(30);
            m.module_prm_data.length = len as u8;
            let t = lex.num(len);
            pre.push(lex.assign("Ext_Module_Prm_Data_Len", &t));
        }
        if rng.chance(1, 3) {
            let it = rand_text(rng);
            let t = lex.string(&it);
            pre.push(lex.assign("Info_Text", &t));
            m.info_text = Some(it);
        }
        if rng.bool() {
            pre.push(lex.assign("Preset", "1"));
        }
        let has_ref = rng.chance(3, 4);
        for _ in 0..rng.usize(3) {
            let off = rng.below(10);
            let data = rng.bytes(1 + rng.clone().usize(4));
            let t = lex.list(&data);
            post.push(lex.assign_arg("Ext_User_Prm_Data_Const", off, &t));
            m.module_prm_data.data_const.push((off as usize, data));
        }
        if !def_ids.is_empty() {
            for _ in 0..rng.usize(3) {
                let off = rng.below(10);
                let id = *rng.pick(&def_ids);
                let t = lex.num(id as u64);
                post.push(lex.assign_arg("Ext_User_Prm_Data_Ref", off, &t));
                m.module_prm_data.data_ref.push((off as usize, defs[&id].clone()));
            }
        }
        // the parser records consts and refs in separate lists, so their relative order is free
        s.push_str(&pre.concat());
        if has_ref {
            let r = loop {
                let r = rng.below(40) as u32;
                if !used_refs.contains(&r) {
                    break r;
                }
            };
            used_refs.push(r);
            m.reference = Some(r);
            s.push_str(&format!("{}{}", lex.num(r as u64), lex.nl()));
        }
        s.push_str(&post.concat());
        if rng.chance(1, 4) {
            s.push_str(&format!("{}{}", lex.kw("Data_Area_Beg"), lex.nl()));
            s.push_str(&lex.assign("Area_Name", "\"Inputs\""));
            s.push_str(&lex.assign("Length", "4"));
            s.push_str(&format!("{}{}", lex.kw("Data_Area_End"), lex.nl()));
        }
        s.push_str(&format!("{}{}", lex.kw("EndModule"), lex.nl()));
        e.available_modules.push(Arc::new(m));
        blocks.push(s);
    }
    // slots (need modules with references)
    if !used_refs.is_empty() && rng.bool() {
        let mut s = format!("{}{}", lex.kw("SlotDefinition"), lex.nl());
        for k in 0..1 + rng.usize(3) {
            let name = rand_text(rng);
            let default_ref = *rng.pick(&used_refs);
            let find = |r: u32| e.available_modules.iter().find(|m| m.reference == Some(r)).cloned();
            let (text, allowed): (String, Vec<Arc<Module>>) = if rng.bool() {
                let a = rng.below(20) as u32;
                // (rarely -- the library spends about half a second on such a range -- up to the largest module reference there is)
                let b = if rng.chance(1, 400) { 65535 } else { a + rng.below(25) as u32 };
                (format!("{}{}-{}{}", lex.num(a as u64), lex.ws(), lex.ws(), lex.num(b as u64)), (a..=b).filter_map(find).collect())
            } else {
                let mut v: Vec<u32> = (0..1 + rng.usize(4)).map(|_| if rng.chance(3, 4) { *rng.pick(&used_refs) } else { rng.below(40) as u32 }).collect();
                if rng.bool() {
                    v.push(default_ref);
                }
                let mut t = String::new();
                for (i, x) in v.iter().enumerate() {
                    if i > 0 {
                        t.push_str(&format!("{},{}", lex.ws(), lex.ws()));
                    }
                    t.push_str(&lex.num(*x as u64));
                }
                (t, v.iter().filter_map(|r| find(*r)).collect())
            };
            s.push_str(&format!(
                "{}{}({}{}{}){}={}{} {} {}{}",
                lex.kw("Slot"),
                lex.ws(),
                lex.ws(),
                lex.num(k as u64 + 1),
                lex.ws(),
                lex.ws(),
                lex.ws(),
                lex.string(&name),
                lex.num(default_ref as u64),
                text,
                lex.nl()
            ));
            e.slots.push(Slot {
                name,
                number: k as u8 + 1,
                default: find(default_ref).unwrap(),
                allowed_modules: allowed,
            });
        }
        s.push_str(&format!("{}{}", lex.kw("EndSlotDefinition"), lex.nl()));
        blocks.push(s);
    }
    // unit diag areas
    for _ in 0..rng.usize(3) {
        let first = rng.below(40) as u16;
        let last = first + rng.below(8) as u16;
        let mut values = BTreeMap::new();
        let mut s = format!("{}{}={}{}{}-{}{}{}", lex.kw("Unit_Diag_Area"), lex.ws(), lex.ws(), lex.num(first as u64), lex.ws(), lex.ws(), lex.num(last as u64), lex.nl());
        for _ in 0..1 + rng.usize(3) {
            let n = rng.below(256) as u16;
            let t = rand_text(rng);
            s.push_str(&format!("{}{}({}{}){}={}{}{}", lex.kw("Value"), lex.ws(), lex.num(n as u64), lex.ws(), lex.ws(), lex.ws(), lex.string(&t), lex.nl()));
            values.insert(n, t);
        }
        s.push_str(&format!("{}{}", lex.kw("Unit_Diag_Area_End"), lex.nl()));
        e.unit_diag.areas.push(UnitDiagArea { first, last, values });
        blocks.push(s);
    }
    // blocks the parser skips
    if rng.chance(1, 3) {
        blocks.push(format!("{}{}= 1{}X_Unit_Diag_Bit(1) = \"zzz\"{}anything goes here ( = \"{}{}{}", lex.kw("UnitDiagType"), lex.ws(), lex.nl(), lex.nl(), lex.nl(), lex.kw("EndUnitDiagType"), lex.nl()));
    }

    // interleave scalar lines between the blocks (blocks keep their order)
    let mut pieces: Vec<String> = Vec::new();
    let mut li = 0;
    for b in blocks {
        let take = rng.usize(lines.len() - li + 1).min(6);
        for _ in 0..take {
            pieces.push(lines[li].clone());
            li += 1;
        }
        pieces.push(b);
    }
    while li < lines.len() {
        pieces.push(lines[li].clone());
        li += 1;
    }
    out.push_str(&pieces.concat());
    if out.ends_with('\n') && rng.chance(1, 4) {
        // file without a trailing newline
        while out.ends_with('\n') || out.ends_with('\r') {
            out.pop();
        }
    }
    // a file needs at least one statement
    if pieces.iter().all(|p| p.is_empty()) {
        out.push_str("GSD_Revision = 0\n");
        e.gsd_revision = 0;
    }
    Generated { text: out, expected: e }
}

fn diff_fields(a: &GenericStationDescription, b: &GenericStationDescription) -> Vec<&'static str> {
    let mut d = Vec::new();
    macro_rules! f {
        ($($name:ident),*) => { $( if a.$name != b.$name { d.push(stringify!($name)); } )* };
    }
    f!(
        gsd_revision, vendor, model, revision, revision_number, ident_number, hardware_release, software_release, implementation_type, freeze_mode_supported, sync_mode_supported, auto_baud_supported,
        set_slave_addr_supported, fail_safe, max_diag_data_length, modular_station, max_modules, max_input_length, max_output_length, max_data_length, supported_speeds, max_tsdr, available_modules, slots,
        user_prm_data, unit_diag
    );
    d
}

fn parse_guarded(text: &str) -> Result<Result<GenericStationDescription, String>, PanicInfo> {
    catch(|| {
        let (res, _warnings) = gsd_parser::parser::parse_with_warnings(Path::new("generated.gsd"), text);
        let r2 = gsd_parser::parser::parse(Path::new("generated.gsd"), text);
        // both entry points must agree on success
        assert_eq!(res.is_ok(), r2.is_ok(), "parse and parse_with_warnings disagree");
        res.map_err(|e| format!("{}", e))
    })
}

fn panic_class(p: &PanicInfo) -> String {
    // keyed on the message class, not the line
    p.class()
}

// ------------------------------------------------------------------------------------------------
// Mutation
// ------------------------------------------------------------------------------------------------

fn mutate(rng: &mut Rng, text: &str) -> String {
    let lines: Vec<&str> = text.split_inclusive('\n').collect();
    if lines.is_empty() {
        return text.to_string();
    }
    let mut out: Vec<String> = lines.iter().map(|s| s.to_string()).collect();
    let nmut = 1 + rng.usize(3);
    for _ in 0..nmut {
        let i = rng.usize(out.len());
        let line = out[i].clone();
        let new = match rng.usize(18) {
            16 => {
                // drop the "(index)" part of an indexed setting
                if let (Some(a), Some(b)) = (line.find('('), line.find(')')) {
                    if a < b && line[b..].contains('=') {
                        format!("{}{}", &line[..a], &line[b + 1..])
                    } else {
                        line
                    }
                } else {
                    line
                }
            }
            17 => {
                // add an index to a plain setting
                if let Some(eq) = line.find('=') {
                    if !line[..eq].contains('(') {
                        format!("{}(3){}", &line[..eq], &line[eq..])
                    } else {
                        line
                    }
                } else {
                    line
                }
            }
            0 => {
                // string -> number
                if let (Some(a), Some(b)) = (line.find('"'), line.rfind('"')) {
                    if b > a {
                        format!("{}{}{}", &line[..a], rng.below(300), &line[b + 1..])
                    } else {
                        line
                    }
                } else {
                    line
                }
            }
            1 => {
                // number -> string: replace the first digit run after '='
                if let Some(eq) = line.find('=') {
                    let tail = &line[eq + 1..];
                    if let Some(s) = tail.find(|c: char| c.is_ascii_digit()) {
                        let e = tail[s..].find(|c: char| !c.is_ascii_alphanumeric()).map(|k| s + k).unwrap_or(tail.len());
                        format!("{}{}\"str\"{}", &line[..eq + 1], &tail[..s], &tail[e..])
                    } else {
                        line
                    }
                } else {
                    line
                }
            }
            2 => line.replace('(', ""),
            3 => line.replace(')', ""),
            4 => line.replacen('=', "", 1),
            5 => {
                // numeric extremes
                let big = *rng.pick(&["4294967296", "99999999999999999999", "-1", "0xFFFFFFFFF", "256", "255", "65536", "65535", "0xFFFF", "4294967295", "0x", "1.5", "-0"]);
                // (any of the numbers of the line: the last one of a slot definition is the end of a range)
                let b = line.as_bytes();
                let starts: Vec<usize> = (0..b.len()).filter(|i| b[*i].is_ascii_digit() && (*i == 0 || !b[*i - 1].is_ascii_alphanumeric())).collect();
                if !starts.is_empty() {
                    let s = *rng.pick(&starts);
                    let e = line[s..].find(|c: char| !c.is_ascii_alphanumeric()).map(|k| s + k).unwrap_or(line.len());
                    format!("{}{}{}", &line[..s], big, &line[e..])
                } else {
                    line
                }
            }
            6 => {
                // unknown data type / keyword swap
                let swaps = [("Unsigned8", "Float32"), ("Unsigned16", "Unsigned64"), ("Signed8", "OctetString"), ("Bit(", "Bits("), ("BitArea", "Bitarea2"), ("Unsigned32", "unsigned_32")];
                let (a, b) = *rng.pick(&swaps);
                let lower = line.to_lowercase();
                if let Some(p) = lower.find(&a.to_lowercase()) {
                    format!("{}{}{}", &line[..p], b, &line[p + a.len()..])
                } else {
                    line
                }
            }
            7 => String::new(), // delete the line
            8 => format!("{}{}", line, line), // duplicate
            9 => {
                // dangling reference: change a referenced id
                if line.to_lowercase().contains("_ref") || line.to_lowercase().starts_with("slot") {
                    line.chars().map(|c| if c.is_ascii_digit() { '7' } else { c }).collect()
                } else {
                    line
                }
            }
            10 => {
                // move the line somewhere else
                let j = rng.usize(out.len());
                out.swap(i, j);
                continue;
            }
            11 => line.replace('"', ""),
            12 => {
                // list where a number is expected and vice versa
                if let Some(eq) = line.find('=') {
                    format!("{} 1,2,3\n", &line[..eq + 1])
                } else {
                    line
                }
            }
            13 => {
                // truncate the line
                let cut = rng.usize(line.len() + 1);
                let mut c = cut;
                while !line.is_char_boundary(c) {
                    c -= 1;
                }
                format!("{}\n", &line[..c])
            }
            14 => {
                // random byte substitution
                let mut b = line.into_bytes();
                if !b.is_empty() {
                    let k = rng.usize(b.len());
                    b[k] = *rng.pick(b"\"=(),-;\\#@\n\r\t 0x9AZ_.\x00\x7f");
                }
                String::from_utf8_lossy(&b).into_owned()
            }
            _ => {
                // keyword of a block replaced by another block keyword
                let kws = ["EndModule", "EndPrmText", "EndExtUserPrmData", "EndSlotDefinition", "Unit_Diag_Area_End", "Module", "PrmText", "ExtUserPrmData", "SlotDefinition", "Text", "Value", "Slot"];
                let a = *rng.pick(&kws);
                let b = *rng.pick(&kws);
                let lower = line.to_lowercase();
                if let Some(p) = lower.find(&a.to_lowercase()) {
                    format!("{}{}{}", &line[..p], b, &line[p + a.len()..])
                } else {
                    line
                }
            }
        };
        out[i] = new;
    }
    out.concat()
}

fn mock_gsd() -> String {
    std::fs::read_to_string("/repo/gsd-parser/tests/data/mock.gsd").unwrap_or_default()
}

pub fn c19(ctx: &mut Ctx) {
    let seed = ctx.seed;
    let mock = mock_gsd();
    let run_gen = |rep: &mut Report, idx: u64, verbose: bool| {
        let mut rng = Rng::derive(seed, "C19gen", idx);
        let level = (idx % 3) as u8;
        let g = generate(&mut rng, level);
        rep.evaluations += 1;
        rep.cur_case = format!("gen {}", idx);
        if verbose {
            eprintln!("-----\n{}\n-----", g.text);
        }
        match parse_guarded(&g.text) {
            Err(p) => rep.violation(format!("C19/panic/{}", panic_class(&p)), format!("well-formed generated file made the parser panic: {}", p.message)),
            Ok(Err(e)) => rep.violation("C19/wellformed-rejected", format!("well-formed generated file (lexical level {}) was rejected: {}", level, e.lines().take(6).collect::<Vec<_>>().join(" | "))),
            Ok(Ok(parsed)) => {
                if parsed != g.expected {
                    let d = diff_fields(&parsed, &g.expected);
                    if verbose {
                        eprintln!("parsed:   {:#?}\nexpected: {:#?}", parsed, g.expected);
                    }
                    rep.violation(format!("C19/field-differs/{}", d.join("+")), format!("generated file (lexical level {}): fields {:?} differ from what the file says", level, d));
                } else {
                    rep.count("generated_files_equal");
                    rep.add("modules_compared", parsed.available_modules.len() as u64);
                    rep.add("slots_compared", parsed.slots.len() as u64);
                    rep.add("prm_refs_compared", parsed.user_prm_data.data_ref.len() as u64);
                    let mut fp = Fp::new();
                    fp.s(&g.text);
                    rep.nontrivial(fp.get());
                    if idx < 32 && idx % 16 == 1 {
                        rep.sample(J::obj(vec![("kind", J::s("generated well-formed GSD, parsed == model")), ("lexical_level", J::U(level as u64)), ("text_head", J::s(g.text.chars().take(700).collect::<String>()))]));
                    }
                }
            }
        }
        g
    };
    let run_mut = |rep: &mut Report, idx: u64, verbose: bool| {
        let mut rng = Rng::derive(seed, "C19mut", idx);
        let base = if idx % 3 == 0 && !mock.is_empty() {
            mock.clone()
        } else {
            let mut r2 = Rng::derive(seed, "C19gen", idx / 8);
            generate(&mut r2, (idx % 3) as u8).text
        };
        let m = mutate(&mut rng, &base);
        rep.evaluations += 1;
        rep.cur_case = format!("mut {}", idx);
        if verbose {
            eprintln!("-----\n{}\n-----", m);
        }
        match parse_guarded(&m) {
            Err(p) => rep.violation(format!("C19/panic/{}", panic_class(&p)), format!("mutated file made the parser panic: {}", p.message)),
            Ok(Ok(_)) => {
                rep.count("mutants_parsed_ok");
                let mut fp = Fp::new();
                fp.s(&m);
                rep.nontrivial(fp.get());
            }
            Ok(Err(e)) => {
                // reaching the statement loop = a custom (semantic) error rather than a grammar error
                if e.contains("-->") && !e.contains("expected ") {
                    let mut fp = Fp::new();
                    fp.s(&m);
                    rep.nontrivial(fp.get());
                    rep.count("mutants_semantic_error");
                } else {
                    rep.count("mutants_grammar_error");
                }
            }
        }
    };
    let run_bytes = |rep: &mut Report, idx: u64| {
        let mut rng = Rng::derive(seed, "C19bytes", idx);
        let n = rng.usize(200);
        let mut text = String::from_utf8_lossy(&rng.bytes(n)).into_owned();
        if rng.bool() {
            text = format!("#Profibus_DP\n{}", text);
        }
        rep.evaluations += 1;
        rep.cur_case = format!("bytes {}", idx);
        match parse_guarded(&text) {
            Err(p) => rep.violation(format!("C19/panic/{}", panic_class(&p)), format!("random text made the parser panic: {}", p.message)),
            Ok(_) => rep.count("random_texts_no_panic"),
        }
    };
    if let Some(only) = ctx.only.clone() {
        let idx: u64 = only[1].parse().unwrap();
        match only[0].as_str() {
            "gen" => {
                run_gen(&mut ctx.rep, idx, true);
            }
            "mut" => run_mut(&mut ctx.rep, idx, true),
            "bytes" => run_bytes(&mut ctx.rep, idx),
            _ => {}
        }
        return;
    }
    // the shipped file parses (sanity of the harness's path)
    if ctx.shard == 0 {
        if mock.is_empty() {
            ctx.rep.inconclusive("mock.gsd not found");
        } else {
            ctx.rep.evaluations += 1;
            ctx.rep.cur_case = "mock".into();
            match parse_guarded(&mock) {
                Ok(Ok(_)) => ctx.rep.count("mock_gsd_parsed"),
                Ok(Err(e)) => ctx.rep.violation("C19/mock-rejected", e),
                Err(p) => ctx.rep.violation(format!("C19/panic/{}", panic_class(&p)), p.message),
            }
        }
    }
    let n = ctx.n(30_000, 1_500_000, 8);
    for k in 0..n {
        run_gen(&mut ctx.rep, ctx.shard + k * ctx.nshards, false);
    }
    let n = ctx.n(150_000, 8_000_000, 16);
    for k in 0..n {
        run_mut(&mut ctx.rep, ctx.shard + k * ctx.nshards, false);
    }
    let n = ctx.n(60_000, 3_000_000, 8);
    for k in 0..n {
        run_bytes(&mut ctx.rep, ctx.shard + k * ctx.nshards);
    }
    let _ = Tier::Quick;
}
