//! Reference parser for extended-diagnostics blocks (written from the DP-V0 diagnostics format) and
//! conversion of the library's block type for comparison.
//!
//! header byte bits 7..6: 00 device-related (bits 5..0 = block length incl. header), 01
//! identifier-related (same length rule, payload = one bit per module, LSB first), 10 channel-related
//! (fixed 3 bytes), 11 reserved.  Iteration stops at the first malformed block (length 0, longer
//! than the remainder, truncated channel block, reserved header).

use profirust::dp::{ChannelDataType, ChannelError, ExtDiagBlock};

#[derive(Clone, Debug, PartialEq, Eq)]
pub enum RBlock {
    Device(Vec<u8>),
    Identifier(Vec<bool>),
    /// `error_class`: 0 = one of the nine defined errors, 1 = manufacturer specific (16..=31), 2 = reserved
    Channel { module: u8, channel: u8, input: bool, output: bool, dtype: u8, error: u8, error_class: u8 },
}

pub fn ref_blocks(buf: &[u8]) -> Vec<RBlock> {
    let mut out = Vec::new();
    let mut i = 0;
    while i < buf.len() {
        let h = buf[i];
        let rem = &buf[i..];
        match h >> 6 {
            0b00 | 0b01 => {
                let len = (h & 0x3f) as usize;
                if len == 0 || len > rem.len() {
                    break;
                }
                let payload = &rem[1..len];
                if h >> 6 == 0 {
                    out.push(RBlock::Device(payload.to_vec()));
                } else {
                    let mut bits = Vec::new();
                    for b in payload {
                        for k in 0..8 {
                            bits.push(b & (1 << k) != 0);
                        }
                    }
                    out.push(RBlock::Identifier(bits));
                }
                i += len;
            }
            0b10 => {
                if rem.len() < 3 {
                    break;
                }
                out.push(RBlock::Channel {
                    module: rem[0] & 0x3f,
                    channel: rem[1] & 0x3f,
                    input: rem[1] & 0x40 != 0,
                    output: rem[1] & 0x80 != 0,
                    // 0 is not a defined data type: reported like 7 (invalid)
                    dtype: if rem[2] >> 5 == 0 { 7 } else { rem[2] >> 5 },
                    error: rem[2] & 0x1f,
                    error_class: match rem[2] & 0x1f {
                        1..=9 => 0,
                        16..=31 => 1,
                        _ => 2,
                    },
                });
                i += 3;
            }
            _ => break,
        }
    }
    out
}

fn dtype_code(d: ChannelDataType) -> u8 {
    match d {
        ChannelDataType::Bit => 1,
        ChannelDataType::Bit2 => 2,
        ChannelDataType::Bit4 => 3,
        ChannelDataType::Byte => 4,
        ChannelDataType::Word => 5,
        ChannelDataType::DWord => 6,
        ChannelDataType::Invalid => 7,
    }
}

fn error_code(e: ChannelError) -> u8 {
    match e {
        ChannelError::ShortCircuit => 1,
        ChannelError::UnderVoltage => 2,
        ChannelError::OverVoltage => 3,
        ChannelError::OverLoad => 4,
        ChannelError::OverTemperature => 5,
        ChannelError::LineBreak => 6,
        ChannelError::UpperLimitOvershoot => 7,
        ChannelError::LowerLimitUndershoot => 8,
        ChannelError::Error => 9,
        ChannelError::Reserved(r) => r,
        ChannelError::Vendor(v) => v,
    }
}

/// Returns the reference form plus (offset into the buffer, length) of the payload slice if the block
/// borrows from the buffer.
pub fn from_lib_block(b: &ExtDiagBlock, base: usize) -> (RBlock, Option<usize>, usize) {
    match b {
        ExtDiagBlock::Device(d) => (RBlock::Device(d.to_vec()), if d.is_empty() { None } else { Some(d.as_ptr() as usize - base) }, d.len()),
        ExtDiagBlock::Identifier(i) => {
            let mut bits = Vec::with_capacity(i.len());
            for k in 0..i.len() {
                bits.push(*i.get(k).unwrap());
            }
            (RBlock::Identifier(bits), None, 0)
        }
        ExtDiagBlock::Channel(c) => (
            RBlock::Channel {
                module: c.module,
                channel: c.channel,
                input: c.input,
                output: c.output,
                // 0 maps to Invalid in the library (only 1..=6 are defined data types)
                dtype: dtype_code(c.dtype),
                error: error_code(c.error),
                error_class: match c.error {
                    ChannelError::Vendor(_) => 1,
                    ChannelError::Reserved(_) => 2,
                    _ => 0,
                },
            },
            None,
            0,
        ),
    }
}

/// Normalise the reference channel data type the way the format defines it: 0 and 7 are invalid.
pub fn normalise(blocks: &mut [RBlock]) {
    for b in blocks.iter_mut() {
        if let RBlock::Channel { dtype, .. } = b {
            if *dtype == 0 {
                *dtype = 7;
            }
        }
    }
}

pub fn diff_class(got: &[RBlock], want: &[RBlock]) -> &'static str {
    if got.len() > want.len() {
        "extra-blocks"
    } else if got.len() < want.len() {
        "missing-blocks"
    } else {
        match got.iter().zip(want.iter()).find(|(a, b)| a != b) {
            Some((RBlock::Device(_), RBlock::Device(_))) => "device-content",
            Some((RBlock::Identifier(_), RBlock::Identifier(_))) => "identifier-content",
            Some((RBlock::Channel { .. }, RBlock::Channel { .. })) => "channel-content",
            _ => "block-kind",
        }
    }
}
