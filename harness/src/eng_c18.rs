//! C18 — live list and DP scanner converge to the stations actually on the bus.
//!
//! One real station (address incl. 0 and 125) runs the LiveList or the DpScanner application; the
//! population consists of reference devices (DP slaves and non-DP stations) that appear and
//! disappear; replies get lost during the history phase.  After the last change and two complete
//! address sweeps (observed on the wire as two probes of address 125):
//!   * LiveList::iter_stations() == addresses (other than the scanning station) that answer;
//!   * the scanner's knowledge (reconstructed from its events) == the answering DP slaves with
//!     their ident numbers;
//! during the whole run: Discovered/Found and Lost strictly alternate per address, events only for
//! addresses where a device exists, and only addresses 0..125 are ever probed.

use crate::eng_ring::RingApp;
use crate::refcodec::RTel;
use crate::refslave::*;
use crate::sim::*;
use crate::util::*;
use crate::vbus::*;
use crate::{Ctx, Tier};
use profirust::dp::scan::{DpScanEvent, DpScanner};
use profirust::fdl::{self, live_list::LiveList, live_list::StationEvent};
use std::cell::RefCell;
use std::collections::{BTreeMap, BTreeSet};
use std::rc::Rc;

struct Dev {
    addr: u8,
    dp: bool,
    ident: u16,
    core: Rc<RefCell<SlaveCore>>,
    script_pct: Rc<RefCell<u64>>,
}

pub fn c18_case(rep: &mut Report, seed: u64, idx: u64, verbose: bool) {
    let mut rng = Rng::derive(seed, "c18", idx);
    let baud = *rng.pick(&[profirust::Baudrate::B19200, profirust::Baudrate::B500000, profirust::Baudrate::B1500000, profirust::Baudrate::B12000000]);
    let slot_bits = min_slot_bits(baud) + *rng.pick(&[0u16, 100]);
    let ts = match rng.usize(5) {
        0 => 0,
        1 => 125,
        2 => 124,
        _ => rng.below(126) as u8,
    };
    let scanner = rng.bool();
    let hsa = if ts == 125 { 126 } else { (ts + 1 + rng.below(3) as u8).min(126) };
    let period = max_period(baud, slot_bits) / *rng.pick(&[1i64, 2, 4]);
    rep.evaluations += 1;
    let mut world: World<RingApp> = World::new(baud, rng.next_u64());
    let mut b = fdl::ParametersBuilder::new(ts, baud);
    // (a tiny TTR makes every token visit a "high priority only" visit)
    let ttr = *rng.pick(&[256u32, 256, 3000, 50_000]);
    b.slot_bits(slot_bits).highest_station_address(hsa).token_rotation_bits(ttr).gap_wait_rotations(100);
    let app = if scanner { RingApp::Scan(Tap::new(DpScanner::new())) } else { RingApp::Live(Tap::new(LiveList::new())) };
    world.add_station(b.build(), app, period.max(1), 5);
    world.set_online(0);
    let st_port = world.stations[0].phy.port;
    // population
    let ndev = rng.usize(13);
    let mut devs: Vec<Dev> = Vec::new();
    let mut used = vec![ts];
    for _ in 0..ndev {
        let addr = match rng.usize(6) {
            0 => 125,
            1 => 0,
            2 => 126u8.wrapping_sub(1 + rng.below(4) as u8),
            _ => rng.below(126) as u8,
        };
        if used.contains(&addr) {
            continue;
        }
        used.push(addr);
        let dp = rng.chance(2, 3);
        let ident = rng.below(65536) as u16;
        let port = world.new_device_port(&format!("dev#{}", addr));
        let mut core = SlaveCore::new(addr, ident, vec![0x11], 1, 1);
        core.is_dp_slave = dp;
        // (a station may answer the status request with a negative status -- it still answers)
        if rng.chance(1, 4) {
            core.status_reply_code = *rng.pick(&[1u8, 2, 3, 9, 12]);
        }
        core.present = rng.chance(2, 3);
        let core = Rc::new(RefCell::new(core));
        let pct = Rc::new(RefCell::new(0u64));
        world.add_device(Box::new(RefSlave {
            port,
            baud,
            core: core.clone(),
            script: Rc::new(RefCell::new(Vec::new())),
            random_fault_pct: pct.clone(),
            random_alphabet: vec![Fault::RequestLost, Fault::ReplyLost, Fault::ReplyCorrupted, Fault::LateReply],
            log: Rc::new(RefCell::new(Vec::new())),
            min_tsdr_bits: 11,
            max_tsdr_bits: 40,
            // (long enough to land inside the reply window of the next probe)
            late_spread_bits: 700,
            slot_bits: slot_bits as u64,
        }));
        devs.push(Dev { addr, dp, ident, core, script_pct: pct });
    }
    let descr = format!(
        "baud {} slot {} ts {} hsa {} app {} devices {:?}",
        baud.to_rate(),
        slot_bits,
        ts,
        hsa,
        if scanner { "DpScanner" } else { "LiveList" },
        devs.iter().map(|d| format!("#{}{}{}", d.addr, if d.dp { "dp" } else { "fdl" }, if d.core.borrow().present { "+" } else { "-" })).collect::<Vec<_>>()
    );
    if verbose {
        eprintln!("{}", descr);
    }
    // history: population changes and lost replies during the first `n_changes` sweeps
    // (under the interpreter a sweep of 126 addresses takes minutes: no history there, two stable sweeps)
    let n_changes = if cfg!(miri) { 0 } else { rng.usize(10) };
    let loss = if cfg!(miri) { 0 } else { *rng.pick(&[0u64, 0, 10, 30]) };
    for d in &devs {
        *d.script_pct.borrow_mut() = loss;
    }
    let mut changes_left = if devs.is_empty() { 0 } else { n_changes };
    let mut sweeps = 0u32; // probes of address 125 seen
    let mut sweeps_at_last_change = 0u32;
    let mut trace_idx = 0usize;
    let mut viol: Option<(String, String)> = None;
    // event automata
    let mut known_live: BTreeSet<u8> = BTreeSet::new(); // from LiveList events
    let mut known_dp: BTreeMap<u8, u16> = BTreeMap::new(); // from scanner events
    let mut n_events = 0u64;
    let mut steps = 0u64;
    let dev_addrs: BTreeSet<u8> = devs.iter().map(|d| d.addr).collect();
    let mut next_change_at_sweep = 1u32;
    'run: loop {
        steps += 1;
        if steps > 60_000_000 {
            rep.inconclusive("C18 case exceeded the step cap");
            return;
        }
        if steps % 256 == 0 && past_deadline() {
            rep.count("cases_cut_short_by_time_budget");
            return;
        }
        profirust::verif::set_fuel(200_000);
        let Some(s) = world.step() else { break };
        if !matches!(s, Stepped::Polled(0)) {
            continue;
        }
        if let Some(p) = world.stations[0].panic.clone() {
            rep.count(&format!("C18_panic_seen_{}", p.class()));
            return;
        }
        // application probes of this poll (tap): (time, expects reply from)
        let mut app_probe_times: Vec<Us> = Vec::new();
        let drain = |log: &mut Vec<TapEv>, out: &mut Vec<Us>| {
            for e in log.drain(..) {
                if let TapEv::Ask { t, sent: Some(_), .. } = e {
                    out.push(t);
                }
            }
        };
        match &mut world.stations[0].apps {
            RingApp::Live(a) => drain(&mut a.log, &mut app_probe_times),
            RingApp::Scan(a) => drain(&mut a.log, &mut app_probe_times),
            _ => {}
        }
        // events of this poll
        match &mut world.stations[0].apps {
            RingApp::Live(a) => {
                a.log.clear();
                if verbose {
                    let got: BTreeSet<u8> = a.inner.iter_stations().collect();
                    if got != known_live {
                        eprintln!("  t={} list {:?} events-say {:?}", world.now, got, known_live);
                    }
                }
                if let Some(ev) = a.inner.take_last_event() {
                    n_events += 1;
                    if verbose {
                        eprintln!("  t={} event {:?} app-probes {:?}", world.now, ev, app_probe_times);
                    }
                    match ev {
                        StationEvent::Discovered(d) => {
                            if !known_live.insert(d.address) {
                                viol = Some(("C18/live-list/discovered-twice".into(), format!("#{} Discovered although already known", d.address)));
                            } else if !dev_addrs.contains(&d.address) {
                                viol = Some(("C18/live-list/discovered-nonexistent-station".into(), format!("#{} Discovered but no device has that address", d.address)));
                            }
                            rep.count("C18_live_discovered");
                        }
                        StationEvent::Lost(a) => {
                            if !known_live.remove(&a) {
                                viol = Some(("C18/live-list/lost-without-discovered".into(), format!("#{} Lost but it was not known", a)));
                            }
                            rep.count("C18_live_lost");
                        }
                    }
                }
            }
            RingApp::Scan(a) => {
                a.log.clear();
                if let Some(ev) = a.inner.take_last_event() {
                    n_events += 1;
                    match ev {
                        DpScanEvent::PeripheralFound(d) => {
                            if known_dp.insert(d.address, d.ident).is_some() {
                                viol = Some(("C18/scanner/found-twice".into(), format!("#{} Found although already known", d.address)));
                            } else if !devs.iter().any(|x| x.addr == d.address && x.dp) {
                                viol = Some(("C18/scanner/found-nonexistent-peripheral".into(), format!("#{} Found but no DP slave has that address", d.address)));
                            }
                            rep.count("C18_scan_found");
                        }
                        DpScanEvent::PeripheralRequery(d) => {
                            if !known_dp.contains_key(&d.address) {
                                viol = Some(("C18/scanner/requery-of-unknown".into(), format!("#{} Requery but it was never Found", d.address)));
                            }
                            known_dp.insert(d.address, d.ident);
                            rep.count("C18_scan_requery");
                        }
                        DpScanEvent::PeripheralLost(a) => {
                            if known_dp.remove(&a).is_none() {
                                viol = Some(("C18/scanner/lost-without-found".into(), format!("#{} Lost but it was never Found", a)));
                            }
                            rep.count("C18_scan_lost");
                        }
                    }
                }
            }
            _ => {}
        }
        if viol.is_some() {
            break 'run;
        }
        // probes on the wire
        let new_frames: Vec<(Us, RTel)> = {
            let bus = world.bus.borrow();
            let v = bus.trace[trace_idx..].iter().filter(|f| f.sender == st_port).filter_map(|f| f.decoded.clone().map(|d| (f.start, d))).collect();
            trace_idx = bus.trace.len();
            v
        };
        for (start, t) in new_frames {
            if let RTel::Data { da, fc, .. } = &t {
                if fc.is_req() {
                    rep.count("C18_probes_checked");
                    if *da > 125 {
                        viol = Some(("C18/probe-above-125".into(), format!("request {} to address {}", t.short(), da)));
                        break 'run;
                    }
                    // a request handed in by the application in this poll (as opposed to a GAP poll)
                    if app_probe_times.contains(&start) {
                        rep.count("C18_application_probes");
                        if *da == 125 {
                            sweeps += 1;
                        }
                    }
                }
            }
        }
        // population changes at sweep boundaries
        if changes_left > 0 && sweeps >= next_change_at_sweep && !devs.is_empty() {
            let d = rng.pick(&devs);
            let mut c = d.core.borrow_mut();
            c.present = !c.present;
            if c.present {
                c.power_cycle();
            }
            changes_left -= 1;
            sweeps_at_last_change = sweeps;
            next_change_at_sweep = sweeps + 1 + rng.below(2) as u32;
            rep.count("C18_population_changes");
        }
        if changes_left == 0 {
            if loss > 0 && devs.iter().any(|d| *d.script_pct.borrow() > 0) {
                for d in &devs {
                    *d.script_pct.borrow_mut() = 0;
                }
                sweeps_at_last_change = sweeps;
            }
            // two full sweeps (three probes of 125, to be safe about the partial one) of stability
            if sweeps >= sweeps_at_last_change + if cfg!(miri) { 2 } else { 3 } {
                break;
            }
        }
    }
    // A late reply can overlap the station's next request.  The overlapped bytes are garbled at random
    // and one garbled byte in 255 is 0xE5, a complete short acknowledgement which no receiver can tell
    // from a real one.  Noise of that kind is outside the fault class of C18 (lost replies), so a case
    // in which transmissions overlapped is not judged.
    if world.bus.borrow().collisions > 0 {
        rep.count("C18_cases_not_judged_because_transmissions_overlapped");
        return;
    }
    if let Some((sig, what)) = viol {
        if verbose {
            let bus = world.bus.borrow();
            let n = bus.trace.len();
            for f in &bus.trace[n.saturating_sub(60)..] {
                eprintln!("  t={} port={} {}", f.start, f.sender, f.decoded.as_ref().map(|d| d.short()).unwrap_or_else(|| "<undecodable>".into()));
            }
        }
        rep.violation(sig, format!("{} [{}]", what, descr));
        return;
    }
    // final comparison
    let present_all: BTreeSet<u8> = devs.iter().filter(|d| d.core.borrow().present).map(|d| d.addr).collect();
    let present_dp: BTreeMap<u8, u16> = devs.iter().filter(|d| d.core.borrow().present && d.dp).map(|d| (d.addr, d.ident)).collect();
    match &world.stations[0].apps {
        RingApp::Live(a) => {
            let got: BTreeSet<u8> = a.inner.iter_stations().collect();
            if got != present_all {
                let extra: Vec<u8> = got.difference(&present_all).copied().collect();
                let missing: Vec<u8> = present_all.difference(&got).copied().collect();
                let class = if extra.contains(&ts) { "contains-own-address" } else if !extra.is_empty() { "stale-station" } else { "missing-station" };
                rep.violation(format!("C18/live-list/{}", class), format!("after two stable sweeps the live list is {:?} but the answering stations are {:?} (extra {:?}, missing {:?}) [{}]", got, present_all, extra, missing, descr));
                return;
            }
            if known_live != present_all {
                rep.violation("C18/live-list/events-disagree-with-list", format!("events say {:?}, iter_stations says {:?} [{}]", known_live, got, descr));
                return;
            }
            rep.count("C18_live_lists_converged");
        }
        RingApp::Scan(_) => {
            if known_dp != present_dp {
                let class = if known_dp.keys().collect::<Vec<_>>() != present_dp.keys().collect::<Vec<_>>() { "wrong-set" } else { "wrong-ident" };
                rep.violation(format!("C18/scanner/{}", class), format!("after two stable sweeps the scanner knows {:?} but the answering DP slaves are {:?} [{}]", known_dp, present_dp, descr));
                return;
            }
            rep.count("C18_scanners_converged");
        }
        _ => {}
    }
    rep.add("C18_sweeps_observed", sweeps as u64);
    rep.add("C18_events", n_events);
    let mut fp = Fp::new();
    fp.s(&descr).u(n_changes as u64).u(loss);
    if ndev > 0 {
        rep.nontrivial(fp.get());
    }
    if idx % 128 < 2 {
        rep.sample(J::obj(vec![("kind", J::s("population history, two stable sweeps, comparison")), ("case", J::s(descr)), ("changes", J::U(n_changes as u64)), ("loss_pct_during_history", J::U(loss)), ("sweeps", J::U(sweeps as u64))]));
    }
}

pub fn c18(ctx: &mut Ctx) {
    let seed = ctx.seed;
    if let Some(only) = ctx.only.clone() {
        if only[0] == "c18" {
            let s = only.iter().position(|x| x == "seed").and_then(|k| only.get(k + 1)).and_then(|x| x.parse().ok()).unwrap_or(seed);
            c18_case(&mut ctx.rep, s, only[1].parse().unwrap(), true);
        }
        return;
    }
    let n = ctx.n(8000, 800_000, 16);
    for k in 0..n {
        if ctx.over_budget() {
            break;
        }
        let i = ctx.shard + k * ctx.nshards;
        ctx.rep.cur_case = format!("c18 {} seed {}", i, seed);
        c18_case(&mut ctx.rep, seed, i, false);
    }
    let _ = Tier::Quick;
}
