//! Shared utilities: PRNG, hashing, a tiny JSON writer, the per-shard report, panic capture and the
//! formatting log sink.

use std::collections::{BTreeMap, BTreeSet};
use std::fmt::Write as _;

// ------------------------------------------------------------------------------------------------
// PRNG: xoshiro256** seeded through splitmix64.  Own implementation so that every case is
// replayable from (seed, index) without any dependency.
// ------------------------------------------------------------------------------------------------

#[derive(Clone, Debug)]
pub struct Rng {
    s: [u64; 4],
}

pub fn splitmix64(x: &mut u64) -> u64 {
    *x = x.wrapping_add(0x9E3779B97F4A7C15);
    let mut z = *x;
    z = (z ^ (z >> 30)).wrapping_mul(0xBF58476D1CE4E5B9);
    z = (z ^ (z >> 27)).wrapping_mul(0x94D049BB133111EB);
    z ^ (z >> 31)
}

impl Rng {
    pub fn new(seed: u64) -> Self {
        let mut x = seed;
        let s = [
            splitmix64(&mut x),
            splitmix64(&mut x),
            splitmix64(&mut x),
            splitmix64(&mut x),
        ];
        Rng { s }
    }

    /// Derive an independent generator for (seed, stream label, index).
    pub fn derive(seed: u64, label: &str, idx: u64) -> Self {
        let mut h = fnv1a(label.as_bytes());
        h ^= seed.wrapping_mul(0x9E3779B97F4A7C15);
        h = h.rotate_left(17) ^ idx.wrapping_mul(0xD6E8FEB86659FD93);
        Rng::new(h)
    }

    pub fn next_u64(&mut self) -> u64 {
        let result = self.s[1].wrapping_mul(5).rotate_left(7).wrapping_mul(9);
        let t = self.s[1] << 17;
        self.s[2] ^= self.s[0];
        self.s[3] ^= self.s[1];
        self.s[1] ^= self.s[2];
        self.s[0] ^= self.s[3];
        self.s[2] ^= t;
        self.s[3] = self.s[3].rotate_left(45);
        result
    }

    /// Uniform in 0..n (n > 0)
    pub fn below(&mut self, n: u64) -> u64 {
        debug_assert!(n > 0);
        // multiply-shift; bias is irrelevant for workload generation
        ((self.next_u64() as u128 * n as u128) >> 64) as u64
    }

    /// Uniform in lo..=hi
    pub fn range(&mut self, lo: i64, hi: i64) -> i64 {
        debug_assert!(lo <= hi);
        lo + self.below((hi - lo) as u64 + 1) as i64
    }

    pub fn usize(&mut self, n: usize) -> usize {
        self.below(n as u64) as usize
    }

    pub fn u8(&mut self) -> u8 {
        (self.next_u64() >> 56) as u8
    }

    pub fn bool(&mut self) -> bool {
        self.next_u64() >> 63 == 1
    }

    /// true with probability num/den
    pub fn chance(&mut self, num: u64, den: u64) -> bool {
        self.below(den) < num
    }

    pub fn pick<'a, T>(&mut self, xs: &'a [T]) -> &'a T {
        &xs[self.usize(xs.len())]
    }

    pub fn bytes(&mut self, n: usize) -> Vec<u8> {
        (0..n).map(|_| self.u8()).collect()
    }

    pub fn shuffle<T>(&mut self, xs: &mut [T]) {
        for i in (1..xs.len()).rev() {
            let j = self.usize(i + 1);
            xs.swap(i, j);
        }
    }
}

pub fn fnv1a(data: &[u8]) -> u64 {
    let mut h: u64 = 0xcbf29ce484222325;
    for b in data {
        h ^= *b as u64;
        h = h.wrapping_mul(0x100000001b3);
    }
    h
}

/// Incremental fingerprint hasher (FNV-1a over fed words).
#[derive(Clone, Copy)]
pub struct Fp(pub u64);
impl Default for Fp {
    fn default() -> Self {
        Fp(0xcbf29ce484222325)
    }
}
impl Fp {
    pub fn new() -> Self {
        Self::default()
    }
    pub fn u(&mut self, x: u64) -> &mut Self {
        for i in 0..8 {
            self.0 ^= (x >> (8 * i)) & 0xff;
            self.0 = self.0.wrapping_mul(0x100000001b3);
        }
        self
    }
    pub fn b(&mut self, data: &[u8]) -> &mut Self {
        for b in data {
            self.0 ^= *b as u64;
            self.0 = self.0.wrapping_mul(0x100000001b3);
        }
        self.u(data.len() as u64)
    }
    pub fn s(&mut self, s: &str) -> &mut Self {
        self.b(s.as_bytes())
    }
    pub fn get(&self) -> u64 {
        self.0
    }
}

// ------------------------------------------------------------------------------------------------
// JSON
// ------------------------------------------------------------------------------------------------

#[derive(Clone, Debug)]
pub enum J {
    Null,
    B(bool),
    I(i64),
    U(u64),
    F(f64),
    S(String),
    A(Vec<J>),
    O(Vec<(String, J)>),
}

impl J {
    pub fn s(x: impl Into<String>) -> J {
        J::S(x.into())
    }
    pub fn obj(kv: Vec<(&str, J)>) -> J {
        J::O(kv.into_iter().map(|(k, v)| (k.to_string(), v)).collect())
    }
    pub fn hex(b: &[u8]) -> J {
        J::S(hex(b))
    }
    pub fn render(&self) -> String {
        let mut out = String::new();
        self.write(&mut out);
        out
    }
    fn write(&self, out: &mut String) {
        match self {
            J::Null => out.push_str("null"),
            J::B(b) => out.push_str(if *b { "true" } else { "false" }),
            J::I(i) => {
                let _ = write!(out, "{}", i);
            }
            J::U(u) => {
                let _ = write!(out, "{}", u);
            }
            J::F(f) => {
                if f.is_finite() {
                    let _ = write!(out, "{}", f);
                } else {
                    out.push_str("null");
                }
            }
            J::S(s) => {
                out.push('"');
                for c in s.chars() {
                    match c {
                        '"' => out.push_str("\\\""),
                        '\\' => out.push_str("\\\\"),
                        '\n' => out.push_str("\\n"),
                        '\r' => out.push_str("\\r"),
                        '\t' => out.push_str("\\t"),
                        c if (c as u32) < 0x20 => {
                            let _ = write!(out, "\\u{:04x}", c as u32);
                        }
                        c => out.push(c),
                    }
                }
                out.push('"');
            }
            J::A(a) => {
                out.push('[');
                for (i, x) in a.iter().enumerate() {
                    if i > 0 {
                        out.push(',');
                    }
                    x.write(out);
                }
                out.push(']');
            }
            J::O(o) => {
                out.push('{');
                for (i, (k, v)) in o.iter().enumerate() {
                    if i > 0 {
                        out.push(',');
                    }
                    J::S(k.clone()).write(out);
                    out.push(':');
                    v.write(out);
                }
                out.push('}');
            }
        }
    }
}

pub fn hex(b: &[u8]) -> String {
    let mut s = String::with_capacity(b.len() * 2);
    for x in b {
        let _ = write!(s, "{:02x}", x);
    }
    s
}

pub fn unhex(s: &str) -> Vec<u8> {
    let s: Vec<u8> = s.bytes().filter(|c| c.is_ascii_hexdigit()).collect();
    s.chunks(2)
        .map(|c| u8::from_str_radix(std::str::from_utf8(c).unwrap(), 16).unwrap())
        .collect()
}

// ------------------------------------------------------------------------------------------------
// Report
// ------------------------------------------------------------------------------------------------

#[derive(Clone, Debug)]
pub struct Violation {
    /// Signature: rule id + root-cause class.  Known findings are matched on this.
    pub sig: String,
    /// Human readable description with the witness
    pub what: String,
    /// Replay descriptor: arguments for `pbmon case ...`
    pub case: String,
}

#[derive(Default)]
pub struct Report {
    pub evaluations: u64,
    pub nontrivial: u64,
    /// hashed fingerprints of distinct non-trivial cases (capped, so a lower bound)
    pub distinct: BTreeSet<u64>,
    /// cases that are distinct by construction (exhaustive enumeration), counted not hashed
    pub distinct_enum: u64,
    pub counters: BTreeMap<String, u64>,
    pub maxf: BTreeMap<String, f64>,
    pub minf: BTreeMap<String, f64>,
    pub sets: BTreeMap<String, BTreeSet<String>>,
    pub samples: Vec<J>,
    pub violations: Vec<Violation>,
    pub violation_count: u64,
    pub inconclusive: u64,
    pub inconclusive_notes: Vec<String>,
    pub exhaustive: bool,
    pub verbose: bool,
    /// descriptor of the case currently running (for violations raised from inside monitors)
    pub cur_case: String,
}

impl Report {
    pub fn count(&mut self, key: &str) {
        *self.counters.entry(key.to_string()).or_insert(0) += 1;
    }
    pub fn add(&mut self, key: &str, n: u64) {
        *self.counters.entry(key.to_string()).or_insert(0) += n;
    }
    pub fn max(&mut self, key: &str, v: f64) {
        let e = self.maxf.entry(key.to_string()).or_insert(f64::NEG_INFINITY);
        if v > *e {
            *e = v;
        }
    }
    pub fn min(&mut self, key: &str, v: f64) {
        let e = self.minf.entry(key.to_string()).or_insert(f64::INFINITY);
        if v < *e {
            *e = v;
        }
    }
    pub fn set(&mut self, key: &str, v: impl Into<String>) {
        let s = self.sets.entry(key.to_string()).or_default();
        if s.len() < 4096 {
            s.insert(v.into());
        }
    }
    pub fn nontrivial(&mut self, fp: u64) {
        self.nontrivial += 1;
        if self.distinct.len() < 100_000 {
            self.distinct.insert(fp);
        }
    }
    /// A non-trivial case that is distinct from all others by construction of the enumeration.
    pub fn nontrivial_enum(&mut self) {
        self.nontrivial += 1;
        self.distinct_enum += 1;
    }
    pub fn sample(&mut self, j: J) {
        if self.samples.len() < 6 {
            self.samples.push(j);
        }
    }
    pub fn violation(&mut self, sig: impl Into<String>, what: impl Into<String>) {
        let sig = sig.into();
        let what = what.into();
        self.violation_count += 1;
        if self.verbose {
            eprintln!("VIOLATION-DETAIL sig={} {}", sig, what);
        }
        let n_same = self.violations.iter().filter(|v| v.sig == sig).count();
        if n_same < 3 && self.violations.len() < 60 {
            self.violations.push(Violation {
                sig,
                what,
                case: self.cur_case.clone(),
            });
        }
    }
    pub fn inconclusive(&mut self, note: impl Into<String>) {
        self.inconclusive += 1;
        if self.inconclusive_notes.len() < 10 {
            self.inconclusive_notes.push(note.into());
        }
    }

    pub fn to_json(&self) -> J {
        J::obj(vec![
            ("evaluations", J::U(self.evaluations)),
            ("nontrivial", J::U(self.nontrivial)),
            ("distinct_enum", J::U(self.distinct_enum)),
            (
                "distinct",
                J::A(self.distinct.iter().map(|d| J::S(format!("{:016x}", d))).collect()),
            ),
            (
                "counters",
                J::O(self.counters.iter().map(|(k, v)| (k.clone(), J::U(*v))).collect()),
            ),
            (
                "max",
                J::O(self.maxf.iter().map(|(k, v)| (k.clone(), J::F(*v))).collect()),
            ),
            (
                "min",
                J::O(self.minf.iter().map(|(k, v)| (k.clone(), J::F(*v))).collect()),
            ),
            (
                "sets",
                J::O(self
                    .sets
                    .iter()
                    .map(|(k, v)| (k.clone(), J::A(v.iter().map(|s| J::S(s.clone())).collect())))
                    .collect()),
            ),
            ("samples", J::A(self.samples.clone())),
            (
                "violations",
                J::A(self
                    .violations
                    .iter()
                    .map(|v| {
                        J::obj(vec![
                            ("sig", J::S(v.sig.clone())),
                            ("what", J::S(v.what.clone())),
                            ("case", J::S(v.case.clone())),
                        ])
                    })
                    .collect()),
            ),
            ("violation_count", J::U(self.violation_count)),
            ("inconclusive", J::U(self.inconclusive)),
            (
                "inconclusive_notes",
                J::A(self.inconclusive_notes.iter().map(|s| J::S(s.clone())).collect()),
            ),
            ("exhaustive", J::B(self.exhaustive)),
        ])
    }
}

// ------------------------------------------------------------------------------------------------
// Panic capture
// ------------------------------------------------------------------------------------------------

use std::cell::RefCell;
thread_local! {
    static LAST_PANIC: RefCell<Option<PanicInfo>> = const { RefCell::new(None) };
    static CATCH_DEPTH: std::cell::Cell<u32> = const { std::cell::Cell::new(0) };
}

#[derive(Clone, Debug)]
pub struct PanicInfo {
    pub message: String,
    pub file: String,
    pub line: u32,
}

impl PanicInfo {
    /// Stable class of the panic: file + message with digits and quoted/braced detail stripped.
    pub fn class(&self) -> String {
        let file = self
            .file
            .trim_start_matches("/repo/")
            .rsplit("/.cargo/registry/src/")
            .next()
            .unwrap_or("");
        // (a dependency: drop the name of the registry mirror, keep "<crate>-<version>/src/...")
        let file = if self.file.contains("/.cargo/registry/src/") { file.splitn(2, '/').nth(1).unwrap_or(file) } else { file }.to_string();
        let mut msg = String::new();
        let first_line = self.message.lines().next().unwrap_or("");
        let mut last_hash = false;
        for c in first_line.chars().take(90) {
            if c.is_ascii_digit() {
                if !last_hash {
                    msg.push('#');
                    last_hash = true;
                }
            } else {
                msg.push(c);
                last_hash = false;
            }
        }
        format!("{}:{}", file, msg)
    }
}

pub fn install_panic_hook(verbose: bool) {
    std::panic::set_hook(Box::new(move |info| {
        let message = if let Some(s) = info.payload().downcast_ref::<&str>() {
            s.to_string()
        } else if let Some(s) = info.payload().downcast_ref::<String>() {
            s.clone()
        } else {
            "<non-string panic>".to_string()
        };
        let (file, line) = info
            .location()
            .map(|l| (l.file().to_string(), l.line()))
            .unwrap_or_default();
        // a panic outside `catch` is a bug of the harness itself: always show it
        if verbose || CATCH_DEPTH.with(|d| d.get()) == 0 {
            eprintln!("PANIC at {}:{}: {}", file, line, message);
        }
        LAST_PANIC.with(|p| {
            // keep the first panic of a case (later ones are usually follow-ups)
            let mut p = p.borrow_mut();
            if p.is_none() {
                *p = Some(PanicInfo { message, file, line });
            }
        });
    }));
}

/// Run `f`, catching panics.  Returns Err(info) if it panicked.
pub fn catch<R>(f: impl FnOnce() -> R) -> Result<R, PanicInfo> {
    LAST_PANIC.with(|p| *p.borrow_mut() = None);
    CATCH_DEPTH.with(|d| d.set(d.get() + 1));
    let res = std::panic::catch_unwind(std::panic::AssertUnwindSafe(f));
    CATCH_DEPTH.with(|d| d.set(d.get() - 1));
    match res {
        Ok(r) => Ok(r),
        Err(_) => Err(LAST_PANIC.with(|p| p.borrow_mut().take()).unwrap_or(PanicInfo {
            message: "<unknown panic>".into(),
            file: String::new(),
            line: 0,
        })),
    }
}

// ------------------------------------------------------------------------------------------------
// Logger: formats every record at Trace level (several library failures live in log arguments).
// ------------------------------------------------------------------------------------------------

use std::sync::atomic::{AtomicBool, AtomicU64, Ordering};

pub static LOG_RECORDS: AtomicU64 = AtomicU64::new(0);
pub static LOG_BYTES: AtomicU64 = AtomicU64::new(0);
pub static LOG_PRINT: AtomicBool = AtomicBool::new(false);

struct Sink;

struct CountWriter(u64);
impl std::fmt::Write for CountWriter {
    fn write_str(&mut self, s: &str) -> std::fmt::Result {
        self.0 += s.len() as u64;
        Ok(())
    }
}

impl log::Log for Sink {
    fn enabled(&self, _: &log::Metadata) -> bool {
        true
    }
    fn log(&self, record: &log::Record) {
        if LOG_PRINT.load(Ordering::Relaxed) {
            eprintln!("    [{:5}] {}", record.level(), record.args());
        } else {
            let mut w = CountWriter(0);
            let _ = std::fmt::write(&mut w, *record.args());
            LOG_BYTES.fetch_add(w.0, Ordering::Relaxed);
        }
        LOG_RECORDS.fetch_add(1, Ordering::Relaxed);
    }
    fn flush(&self) {}
}

static SINK: Sink = Sink;

pub fn install_logger(print: bool) {
    LOG_PRINT.store(print, Ordering::Relaxed);
    let _ = log::set_logger(&SINK);
    log::set_max_level(log::LevelFilter::Trace);
}


// ------------------------------------------------------------------------------------------------
// Wall-clock deadline of a budgeted run (Miri leg): inner loops of long cases give up when it passed,
// so that a shard ends near its budget instead of being killed with everything it observed.
// ------------------------------------------------------------------------------------------------
static DEADLINE_MS: std::sync::atomic::AtomicU64 = std::sync::atomic::AtomicU64::new(0);
static START: std::sync::OnceLock<std::time::Instant> = std::sync::OnceLock::new();

pub fn set_deadline_s(budget_s: f64) {
    let _ = START.set(std::time::Instant::now());
    DEADLINE_MS.store((budget_s * 1000.0) as u64 + 1, std::sync::atomic::Ordering::Relaxed);
}

/// True once the budget of a budgeted run is used up (never in unbudgeted runs).
pub fn past_deadline() -> bool {
    let d = DEADLINE_MS.load(std::sync::atomic::Ordering::Relaxed);
    d != 0 && START.get().map(|s| s.elapsed().as_millis() as u64 > d).unwrap_or(false)
}
