//! C05 — poll() is total: no panic (incl. the library's own debug assertions and overflow checks,
//! with a logger that formats every record), no hang (loop-fuel hook), no PHY-contract breach,
//! whatever arrives on the bus and whatever documented API calls are interleaved.
//!
//! Workloads: (a) one station against a hostile scripted environment, bounded-exhaustive over a
//! 17-action alphabet from 6 prefix states and random to depth 300, with every application kind;
//! (b) the DP rig (0..3 peripherals, hostile slaves) with hostile frames and API calls on top;
//! (c) multi-station rings under the C06 fault plans; (d) mutational replay of recorded traffic.

use crate::eng_dp::*;
use crate::eng_ring::{RingApp, TrafficApp};
use crate::eng_script::*;
use crate::refcodec::{self as rc, RFc, RTel};
use crate::refslave::Fault;
use crate::sim::*;
use crate::util::*;
use crate::vbus::*;
use crate::{Ctx, Tier};
use profirust::fdl;

pub const N_ACT: u64 = 17;
const ACT_NAMES: [&str; 17] = [
    "token-ps-to-ts",
    "token-ns-to-ts",
    "token-from-own-address",
    "token-stranger-to-ts",
    "token-invalid-address",
    "token-between-others",
    "status-request-to-ts",
    "status-request-to-other",
    "status-reply-ready",
    "status-reply-odd",
    "short-confirmation",
    "data-response",
    "data-request-with-saps",
    "garbage",
    "truncated-frame",
    "short-body-with-extension-bits",
    "silence",
];

/// Bytes for one hostile action, given the station's current view.
fn action_bytes(act: u8, ts: u8, ps: u8, ns: u8, awaiting: Option<u8>, rng: &mut Rng) -> Option<Vec<u8>> {
    let stranger = (ts as u16 + 3 + rng.below(100) as u16) as u8 % 126;
    let enc = |t: RTel| rc::encode(&t).unwrap();
    let status_req = |sa: u8, da: u8| RTel::Data {
        da,
        sa,
        dsap: None,
        ssap: None,
        fc: RFc::Req { fcv: false, fcb: false, code: rc::REQ_FDL_STATUS },
        pdu: vec![],
    };
    Some(match act {
        0 => vec![rc::SD4, ts, ps],
        1 => vec![rc::SD4, ts, ns],
        2 => vec![rc::SD4, *rng.pick(&[ts, ns, stranger]), ts],
        3 => vec![rc::SD4, ts, stranger],
        4 => {
            let bad = *rng.pick(&[126u8, 127, 128, 200, 255]);
            if rng.bool() {
                vec![rc::SD4, ts, bad]
            } else {
                vec![rc::SD4, bad, *rng.pick(&[ts, ps, stranger])]
            }
        }
        5 => vec![rc::SD4, *rng.pick(&[ns, ps, stranger, 0, 125]), *rng.pick(&[ns, ps, stranger, 0, 125])],
        6 => enc(status_req(*rng.pick(&[ps, ns, stranger, ts]), ts)),
        7 => enc(status_req(*rng.pick(&[ps, ns, stranger]), *rng.pick(&[ps, ns, stranger, 127]))),
        8 => {
            let from = awaiting.unwrap_or(ns);
            enc(RTel::Data { da: ts, sa: from, dsap: None, ssap: None, fc: RFc::Resp { state: *rng.pick(&[2u8, 3]), status: 0 }, pdu: vec![] })
        }
        9 => {
            let from = *rng.pick(&[awaiting.unwrap_or(stranger), stranger, ts, ps]);
            enc(RTel::Data { da: *rng.pick(&[ts, stranger]), sa: from, dsap: None, ssap: None, fc: RFc::Resp { state: rng.u8() & 3, status: *rng.pick(&rc::RESP_STATUS) }, pdu: if rng.bool() { vec![] } else { rng.bytes(3) } })
        }
        10 => vec![rc::SC],
        11 => {
            let from = *rng.pick(&[awaiting.unwrap_or(stranger), stranger, ns]);
            let l = rng.usize(20);
            enc(RTel::Data {
                da: ts,
                sa: from,
                dsap: if rng.bool() { Some(*rng.pick(&[62u8, 60, 1])) } else { None },
                ssap: if rng.bool() { Some(*rng.pick(&[60u8, 62, 2])) } else { None },
                fc: RFc::Resp { state: 0, status: *rng.pick(&rc::RESP_STATUS) },
                pdu: rng.bytes(l),
            })
        }
        12 => {
            let l = rng.usize(12);
            enc(RTel::Data {
                da: *rng.pick(&[ts, 127, stranger]),
                sa: *rng.pick(&[ps, ns, stranger]),
                dsap: Some(rng.u8()),
                ssap: Some(rng.u8()),
                fc: RFc::Req { fcv: rng.bool(), fcb: rng.bool(), code: *rng.pick(&rc::REQ_CODES) },
                pdu: rng.bytes(l),
            })
        }
        13 => {
            let n = 1 + rng.usize(10);
            let mut g = rng.bytes(n);
            if rng.bool() {
                g[0] = *rng.pick(&[rc::SD1, rc::SD2, rc::SD3, rc::SD4, rc::SC]);
            }
            g
        }
        14 => {
            let f = enc(RTel::Data { da: ts, sa: ps, dsap: Some(1), ssap: None, fc: RFc::Resp { state: 0, status: 8 }, pdu: rng.bytes(9) });
            let n = 1 + rng.usize(f.len() - 1);
            f[..n].to_vec()
        }
        15 => {
            // a frame with a correct length field, checksum and end delimiter whose address bytes
            // announce SAP bytes that the body is too short to hold
            let le = 3 + rng.usize(3);
            let mut body = vec![*rng.pick(&[ts, 127, stranger]) | if rng.chance(3, 4) { 0x80 } else { 0 }, *rng.pick(&[ps, ns, stranger]) | if rng.chance(3, 4) { 0x80 } else { 0 }, *rng.pick(&[0x08u8, 0x00, 0x6c, 0x49, 0x5d])];
            body.extend(rng.bytes(le - 3));
            let fcs = body.iter().fold(0u8, |a, b| a.wrapping_add(*b));
            let mut f = vec![rc::SD2, le as u8, le as u8, rc::SD2];
            f.extend_from_slice(&body);
            f.push(fcs);
            f.push(0x16);
            f
        }
        _ => return None,
    })
}

pub struct HostileOutcome {
    pub states: std::collections::BTreeSet<(&'static str, u8)>,
    pub pairs: std::collections::BTreeSet<(&'static str, u8, u8)>,
}

/// Drive `actions` against station 0 of `world`.  `api` is called between actions.
pub fn hostile_run<A: StationApps>(world: &mut World<A>, env: usize, cfg: &ScriptCfg, rng: &mut Rng, actions: &[u8], api: &mut dyn FnMut(&mut World<A>, &mut Rng)) -> HostileOutcome {
    let mut out = HostileOutcome { states: Default::default(), pairs: Default::default() };
    let tslot = cfg.tslot();
    let mut burst_left = 0usize;
    let mut burst_end: Us = 0;
    let mut burst_prev: Vec<u8> = Vec::new();
    for act in actions {
        if world.stations[0].panic.is_some() || past_deadline() {
            break;
        }
        let (ps, ns, awaiting, st) = {
            let f = &world.stations[0].fdl;
            let tr = f.inspect_token_ring();
            let p = f.verif_probe();
            (tr.previous_station(), tr.next_station(), p.awaiting, (p.state, p.sub))
        };
        out.states.insert(st);
        out.pairs.insert((st.0, st.1, *act));
        let now = world.now;
        let last_end = world.bus.borrow().trace.last().map(|f| f.end).unwrap_or(0).max(burst_end);
        match action_bytes(*act, cfg.ts, ps, ns, awaiting, rng) {
            Some(bytes) if burst_left > 0 || rng.chance(1, 4) => {
                // (many rules of the protocol are about the same thing happening twice)
                let bytes = if burst_left > 0 && !burst_prev.is_empty() && rng.chance(1, 3) { burst_prev.clone() } else { bytes };
                burst_prev = bytes.clone();
                // a burst: this telegram and the next one to three follow each other back to back and the
                // world only runs after the last one, so that a slow poller finds several telegrams at once
                if burst_left == 0 {
                    burst_left = 2 + rng.usize(4);
                }
                burst_left -= 1;
                let start = (last_end + cfg.bits(rng.below(3))).max(now + 1);
                world.schedule_device_tx(start, env, bytes.clone());
                burst_end = start + cfg.bits(11 * bytes.len() as u64);
                if burst_left == 0 {
                    let until = burst_end + rng.below((tslot * 2).max(1) as u64) as Us;
                    run_world_until(world, until);
                }
            }
            Some(bytes) => {
                // sometimes well-timed, sometimes far too early (collisions are part of the input space)
                let gap = match rng.usize(5) {
                    0 => cfg.bits(rng.below(12)),
                    1 => cfg.bits(12 + rng.below(25)),
                    2 => cfg.bits(34 + rng.below(40)),
                    3 => rng.below(tslot.max(1) as u64) as Us,
                    _ => cfg.bits(40),
                };
                let start = (last_end + gap).max(now + 1);
                world.schedule_device_tx(start, env, bytes.clone());
                let end = start + cfg.bits(11 * bytes.len() as u64);
                let until = end + rng.below((tslot * 2).max(1) as u64) as Us;
                run_world_until(world, until);
            }
            None => {
                let d = match rng.usize(3) {
                    0 => tslot / 4,
                    1 => tslot + cfg.bits(40),
                    _ => cfg.token_lost_timeout() + tslot,
                };
                run_world_until(world, now + d);
            }
        }
        if world.stations[0].panic.is_none() {
            api(world, rng);
        }
    }
    // let things settle
    let until = world.now + 3 * tslot;
    run_world_until(world, until);
    out
}

pub fn run_world_until<A: StationApps>(world: &mut World<A>, t: Us) {
    while let Some(nt) = world.next_time() {
        if nt > t {
            break;
        }
        profirust::verif::set_fuel(200_000);
        world.step();
        if world.stations[0].panic.is_some() {
            return;
        }
    }
}

fn report_outcome<A: StationApps>(rep: &mut Report, world: &World<A>, descr: &str) -> bool {
    if let Some(p) = world.stations[0].panic.as_ref() {
        let sig = if p.message.starts_with(profirust::verif::FUEL_PANIC) { format!("C05/hang/{}", p.message.rsplit(" in ").next().unwrap_or("?")) } else { format!("C05/panic/{}", p.class()) };
        rep.violation(sig, format!("poll() panicked at {}us ({}:{}): {} [{}]", world.now, p.file, p.line, p.message.lines().next().unwrap_or(""), descr));
        return false;
    }
    if let Some(b) = world.breaches().first() {
        rep.violation("C05/phy-contract".to_string(), format!("{} [{}]", b, descr));
        return false;
    }
    true
}

fn make_app(kind: u8, rng: &mut Rng, ts: u8) -> RingApp {
    let peers = vec![(ts + 1) % 126, (ts + 40) % 126, 125];
    match kind {
        0 => RingApp::None,
        1 => RingApp::Live(Tap::new(fdl::live_list::LiveList::new())),
        2 => RingApp::Scan(Tap::new(profirust::dp::scan::DpScanner::new())),
        3 => RingApp::Traffic(Tap::new(TrafficApp::new(rng.next_u64(), *rng.pick(&[1u8, 2, 3]), peers, rng.bool(), 20))),
        4 => RingApp::Multi(vec![]),
        _ => RingApp::Multi((0..1 + rng.usize(3)).map(|k| Tap::new(TrafficApp::new(rng.next_u64() ^ k as u64, 3, peers.clone(), rng.bool(), 12))).collect()),
    }
}

/// (a) single station, hostile environment.
pub fn hostile_single(rep: &mut Report, seed: u64, idx: u64, script: Option<Vec<u8>>, prefix: u8, app_kind: u8, verbose: bool) {
    let mut rng = Rng::derive(seed, "c05a", idx);
    let mut cfg = ScriptCfg::gen(&mut rng, None);
    // poll timing over a wide range, also outside the envelope
    cfg.period = match rng.usize(5) {
        0 => 1,
        1 => cfg.tslot() / 3,
        2 => cfg.tslot() * 2,
        _ => cfg.period,
    }
    .max(1);
    if cfg!(miri) {
        // (the interpreter manages about a hundred polls per second)
        cfg.period = cfg.period.max(cfg.tslot() / 8);
    }
    rep.evaluations += 1;
    let app = make_app(app_kind, &mut rng, cfg.ts);
    let script: Vec<u8> = script.unwrap_or_else(|| (0..1 + rng.usize(300)).map(|_| rng.below(N_ACT) as u8).collect());
    let descr = format!("{} app {} prefix {} script {:?}", cfg.json().render(), app.kind(), prefix, script.iter().take(24).map(|a| ACT_NAMES[*a as usize]).collect::<Vec<_>>());
    if verbose {
        eprintln!("{}", descr);
    }
    let mut rig = Rig::new(&cfg, app, rng.next_u64());
    if app_kind == 3 || app_kind >= 5 {
        add_responder(&mut rig, (cfg.ts + 40) % 126, 2);
    }
    // prefix states
    let ns = (cfg.ts as u16 + 1 + rng.below(3) as u16) as u8 % cfg.hsa;
    let ns = if ns == cfg.ts { (cfg.ts + 1) % cfg.hsa } else { ns };
    match prefix {
        0 => {} // listening
        1 => {
            // after claim: wait for the first claim token
            let dl = rig.now() + cfg.token_lost_timeout() + 4 * cfg.tslot();
            let _ = rig.next_station_tx(dl);
        }
        2 => {
            // mid GAP scan
            let dl = rig.now() + cfg.token_lost_timeout() + 4 * cfg.tslot();
            for _ in 0..3 {
                let _ = rig.next_station_tx(dl);
            }
        }
        _ => {
            // in a 2-ring (idle after the pass / holding with traffic / awaiting a reply depending on the app)
            if cfg.hsa > 1 && ns != cfg.ts {
                let _ = bring_up_by_claim(&mut rig, &[ns]);
                if prefix >= 4 {
                    // give the token back once so that the station holds it when the script starts
                    let e = rig.env_token(ns, cfg.ts, 40);
                    rig.run_until(e + cfg.bits(20 + rng.below(200)));
                }
            }
        }
    }
    if rig.panicked().is_none() {
        let env = rig.env;
        let mut api = |w: &mut World<RingApp>, rng: &mut Rng| {
            // documented API calls between polls
            match rng.usize(40) {
                0 => {
                    w.stations[0].fdl.set_offline();
                    let now = w.now;
                    w.stations[0].phy.flush(now);
                    w.stations[0].fdl.set_online();
                }
                1 => {
                    let _ = (w.stations[0].fdl.is_in_ring(), w.stations[0].fdl.connectivity_state(), format!("{:?}", w.stations[0].fdl.inspect_token_ring()));
                }
                2 => {
                    if let RingApp::Live(a) = &mut w.stations[0].apps {
                        let _ = a.inner.take_last_event();
                        let _ = a.inner.iter_stations().count();
                    }
                    if let RingApp::Scan(a) = &mut w.stations[0].apps {
                        let _ = a.inner.take_last_event();
                    }
                }
                _ => {}
            }
            let _ = w.stations[0].apps.drain_tap();
        };
        let out = hostile_run(&mut rig.world, env, &cfg, &mut rng, &script, &mut api);
        for s in &out.states {
            rep.set("fdl_states_exercised", format!("{}/{}", s.0, s.1));
        }
        for (s, sub, a) in &out.pairs {
            rep.set("state_action_pairs", format!("{}/{}:{}", s, sub, ACT_NAMES[*a as usize]));
        }
        rep.add("C05_hostile_frames_injected", script.len() as u64);
        if out.states.len() >= 3 {
            let mut fp = Fp::new();
            fp.s(&descr).u(idx);
            for a in &script {
                fp.u(*a as u64);
            }
            rep.nontrivial(fp.get());
        }
    }
    rep.add("C05_polls", rig.world.polls);
    if report_outcome(rep, &rig.world, &descr) {
        rep.count("C05_single_station_runs_ok");
    }
    if idx % 4096 < 1 {
        rep.sample(J::obj(vec![("kind", J::s("single station vs hostile environment")), ("case", J::s(descr))]));
    }
}

/// (b) DP rig with hostile frames and API calls.
pub fn hostile_dp(rep: &mut Report, seed: u64, idx: u64, verbose: bool) {
    let mut rng = Rng::derive(seed, "c05b", idx);
    let big = rng.chance(1, 4);
    let mut cfg = gen_dp_cfg(&mut rng, 0, 3, big);
    cfg.period = match rng.usize(5) {
        0 => 1,
        1 => cfg.tslot() * 2,
        _ => cfg.period,
    }
    .max(1);
    rep.evaluations += 1;
    let bufs = make_bufs(&cfg);
    let mut run = DpRun::build(&cfg, &bufs, rng.next_u64(), "C05");
    let env = run.world.new_device_port("env");
    let n_txn = 100 + rng.usize(400);
    let pct = *rng.pick(&[10u64, 40, 80]);
    for s in &run.slaves {
        let sc: Vec<Fault> = (0..n_txn).map(|_| if rng.below(100) < pct { rng.pick(&HOSTILE).clone() } else { Fault::None }).collect();
        *s.script.borrow_mut() = sc;
    }
    // common-mode faults: every slave misbehaves in the same way on the same transactions
    if rng.chance(1, 3) {
        let sticky = rng.pick(&[Fault::DataInsteadOfSc, Fault::DataInsteadOfSc, Fault::ReplyLost, Fault::WrongDsap, Fault::ShortPdu, Fault::ScInsteadOfData]).clone();
        let from = *rng.pick(&[0usize, 1, 1, 2, 2, 3, 4]);
        let len = 2 + rng.usize(3 * (cfg.retry_limit as usize + 2));
        for s in &run.slaves {
            let mut sc = s.script.borrow_mut();
            for k in from..(from + len).min(sc.len()) {
                sc[k] = sticky.clone();
            }
        }
    }
    // extended diagnostics of every shape (they are walked by the master's debug log line)
    for s in &run.slaves {
        let mut c = s.core.borrow_mut();
        c.ext_diag_flag = rng.chance(3, 4);
        let n = rng.usize(5);
        let mut e = Vec::new();
        for _ in 0..n {
            let r = rng.u8();
            let h = *rng.pick(&[0x00u8, 0x40, 0x01, 0x41, 0x04, 0x44, 0x3f, 0x7f, 0x80, 0x88, 0xc0, r]);
            e.push(h);
            let k = rng.usize(5);
            e.extend(rng.bytes(k));
        }
        c.ext_diag = e;
    }
    let scfg = ScriptCfg {
        baud: cfg.baud,
        slot_bits: cfg.slot_bits,
        ts: cfg.master,
        hsa: cfg.hsa,
        gap: cfg.gap,
        period: cfg.period,
        ttr_bits: cfg.ttr_bits,
    };
    let descr = cfg.json().render();
    if verbose {
        eprintln!("{}", descr);
    }
    let script: Vec<u8> = (0..20 + rng.usize(200)).map(|_| rng.below(N_ACT) as u8).collect();
    let handles = run.handles.clone();
    let periph_addrs: Vec<u8> = cfg.periphs.iter().map(|p| p.addr).collect();
    let mut api = |w: &mut World<DpApps>, rng: &mut Rng| {
        let dp = &mut w.stations[0].apps.dp.inner;
        let _ = dp.take_last_events();
        if handles.is_empty() {
            return;
        }
        let h = *rng.pick(&handles);
        match rng.usize(30) {
            0 | 1 => dp.get_mut(h).request_diagnostics(),
            2 | 3 => {
                let q = dp.get_mut(h).pi_q_mut();
                if !q.is_empty() {
                    let k = rng.usize(q.len());
                    q[k] = rng.u8();
                }
            }
            4 => {
                // documented: "completely reset this peripheral to a new address"
                let a = if rng.bool() { *rng.pick(&periph_addrs) } else { rng.below(126) as u8 };
                dp.get_mut(h).reset_address(a);
            }
            5 => {
                let p = dp.get_mut(h);
                let _ = format!("{:?} {:?} {} {}", p.last_diagnostics(), p.options().ident_number, p.is_live(), p.is_running());
            }
            6 => {
                let _ = dp.iter().count() + dp.iter_mut().count();
                let _ = dp.operating_state();
            }
            7 => {
                w.stations[0].fdl.set_offline();
                let now = w.now;
                w.stations[0].phy.flush(now);
                w.stations[0].fdl.set_online();
            }
            _ => {}
        }
        w.stations[0].apps.dp.log.clear();
    };
    // let the master get going first
    let t0 = run.world.now + scfg.token_lost_timeout() + scfg.tslot() * (4 + rng.below(200) as i64);
    run_world_until(&mut run.world, t0);
    let out = hostile_run(&mut run.world, env, &scfg, &mut rng, &script, &mut api);
    rep.add("C05_polls", run.world.polls);
    rep.add("C05_hostile_frames_injected", script.len() as u64);
    for s in &out.states {
        rep.set("fdl_states_exercised", format!("{}/{}", s.0, s.1));
    }
    if out.states.len() >= 3 {
        let mut fp = Fp::new();
        fp.s(&descr).u(idx);
        rep.nontrivial(fp.get());
    }
    if report_outcome(rep, &run.world, &descr) {
        rep.count(&format!("C05_dp_runs_ok_{}_peripherals", cfg.periphs.len()));
    }
    if idx % 2048 < 1 {
        rep.sample(J::obj(vec![("kind", J::s("DP master rig with hostile slaves, hostile frames and API calls")), ("config", cfg.json())]));
    }
}

/// (d) mutational replay: valid traffic of a small ring, mutated, replayed against one station.
pub fn mutational(rep: &mut Report, seed: u64, idx: u64) {
    let mut rng = Rng::derive(seed, "c05d", idx);
    let cfg = ScriptCfg::gen(&mut rng, None);
    rep.evaluations += 1;
    let app_kind = rng.usize(6) as u8;
    let app = make_app(app_kind, &mut rng, cfg.ts);
    let mut rig = Rig::new(&cfg, app, rng.next_u64());
    // a plausible traffic pattern around the station: ring of TS and two neighbours
    let a = (cfg.ts as u16 + 1) as u8 % cfg.hsa.max(2);
    let b = (cfg.ts as u16 + 2) as u8 % cfg.hsa.max(3);
    let mut frames: Vec<Vec<u8>> = Vec::new();
    for _ in 0..40 {
        frames.push(vec![rc::SD4, b, a]);
        frames.push(rc::encode(&RTel::Data { da: 30, sa: b, dsap: None, ssap: None, fc: RFc::Req { fcv: true, fcb: rng.bool(), code: rc::REQ_SRD_HIGH }, pdu: rng.bytes(4) }).unwrap());
        frames.push(rc::encode(&RTel::Data { da: b, sa: 30, dsap: None, ssap: None, fc: RFc::Resp { state: 0, status: 8 }, pdu: rng.bytes(3) }).unwrap());
        frames.push(rc::encode(&RTel::Data { da: cfg.ts, sa: b, dsap: None, ssap: None, fc: RFc::Req { fcv: false, fcb: false, code: rc::REQ_FDL_STATUS }, pdu: vec![] }).unwrap());
        frames.push(vec![rc::SD4, cfg.ts, b]);
        frames.push(vec![rc::SD4, a, cfg.ts]);
    }
    let descr = format!("{} mutational replay app {}", cfg.json().render(), app_kind);
    for f in frames {
        let mut f = f;
        match rng.usize(8) {
            0 => {
                let k = rng.usize(f.len());
                f[k] = rng.u8();
            }
            1 => {
                let k = rng.usize(f.len() + 1);
                f.insert(k, rng.u8());
            }
            2 => {
                if f.len() > 1 {
                    let k = rng.usize(f.len());
                    f.remove(k);
                }
            }
            3 => {
                let k = rng.usize(f.len());
                f[k] ^= 1 << rng.usize(8);
            }
            _ => {}
        }
        let gap = *rng.pick(&[5u64, 12, 34, 40, 40, 40]);
        rig.env_send(&f, gap);
        if rng.chance(1, 3) {
            let t = rig.now() + rng.below((cfg.tslot() * 2).max(1) as u64) as Us;
            rig.run_until(t);
        }
        if rig.panicked().is_some() {
            break;
        }
    }
    rep.add("C05_polls", rig.world.polls);
    if rig.states.len() >= 3 {
        let mut fp = Fp::new();
        fp.s(&descr).u(idx);
        rep.nontrivial(fp.get());
    }
    if report_outcome(rep, &rig.world, &descr) {
        rep.count("C05_mutational_runs_ok");
    }
}

pub fn c05(ctx: &mut Ctx) {
    let seed = ctx.seed;
    if let Some(only) = ctx.only.clone() {
        let s = only.iter().position(|x| x == "seed").and_then(|k| only.get(k + 1)).and_then(|x| x.parse().ok()).unwrap_or(seed);
        match only[0].as_str() {
            "c05a" => {
                let idx: u64 = only[1].parse().unwrap();
                let prefix: u8 = only[2].parse().unwrap();
                let app: u8 = only[3].parse().unwrap();
                let script = if only[4] == "-" { None } else { Some(only[4].split(',').map(|x| x.parse().unwrap()).collect()) };
                hostile_single(&mut ctx.rep, s, idx, script, prefix, app, true);
            }
            "c05b" => hostile_dp(&mut ctx.rep, s, only[1].parse().unwrap(), true),
            "c05d" => mutational(&mut ctx.rep, s, only[1].parse().unwrap()),
            "recover" => {
                let mut tmp = Report::default();
                tmp.verbose = true;
                crate::eng_recover::recover_case(&mut tmp, s, only[1].parse().unwrap(), true);
                translate_ring(&mut ctx.rep, &tmp);
            }
            _ => {}
        }
        return;
    }
    // (a) bounded-exhaustive: all action sequences of depth d from 6 prefix states x 6 application set-ups
    let depth = match ctx.tier {
        Tier::Quick => 2,
        Tier::Thorough => 3,
        Tier::Miri => 1,
    };
    let n_seq = N_ACT.pow(depth);
    let mut idx = 0u64;
    for prefix in 0..6u8 {
        for app in 0..6u8 {
            for code in 0..n_seq {
                idx += 1;
                if !ctx.mine(idx) || ctx.over_budget() {
                    continue;
                }
                let mut script = Vec::new();
                let mut c = code;
                for _ in 0..depth {
                    script.push((c % N_ACT) as u8);
                    c /= N_ACT;
                }
                let s: Vec<String> = script.iter().map(|x| x.to_string()).collect();
                ctx.rep.cur_case = format!("c05a {} {} {} {} seed {}", idx, prefix, app, s.join(","), seed);
                hostile_single(&mut ctx.rep, seed, idx, Some(script), prefix, app, false);
                ctx.rep.count("C05_systematic_scripts");
            }
        }
    }
    // random deep scripts
    let n = ctx.n(6000, 300_000, 2);
    for k in 0..n {
        if ctx.over_budget() {
            break;
        }
        let i = 50_000_000 + ctx.shard + k * ctx.nshards;
        let prefix = (i % 6) as u8;
        let app = ((i / 6) % 6) as u8;
        ctx.rep.cur_case = format!("c05a {} {} {} - seed {}", i, prefix, app, seed);
        hostile_single(&mut ctx.rep, seed, i, None, prefix, app, false);
    }
    // (b) DP rig
    let n = ctx.n(3000, 150_000, 1);
    for k in 0..n {
        if ctx.over_budget() {
            break;
        }
        let i = ctx.shard + k * ctx.nshards;
        ctx.rep.cur_case = format!("c05b {} seed {}", i, seed);
        hostile_dp(&mut ctx.rep, seed, i, false);
    }
    // (c) rings under fault plans: only panics / hangs / contract breaches are judged here
    // (not under Miri: a multi-station ring run to convergence takes the interpreter an hour, and it is the
    //  same FDL code as in (a))
    let n = if ctx.tier == Tier::Miri { 0 } else { ctx.n(1500, 60_000, 1) };
    for k in 0..n {
        if ctx.over_budget() {
            break;
        }
        let i = ctx.shard + k * ctx.nshards;
        let mut tmp = Report::default();
        tmp.cur_case = format!("recover {} seed {}", i, seed);
        crate::eng_recover::recover_case(&mut tmp, seed, i, false);
        ctx.rep.cur_case = tmp.cur_case.clone();
        ctx.rep.evaluations += 1;
        translate_ring(&mut ctx.rep, &tmp);
    }
    // (d) mutational replay
    let n = ctx.n(3000, 120_000, 1);
    for k in 0..n {
        if ctx.over_budget() {
            break;
        }
        let i = ctx.shard + k * ctx.nshards;
        ctx.rep.cur_case = format!("c05d {} seed {}", i, seed);
        mutational(&mut ctx.rep, seed, i);
    }
}

/// Ring runs are judged by C06; here only their panics count.
fn translate_ring(rep: &mut Report, tmp: &Report) {
    let mut any = false;
    for (k, v) in &tmp.counters {
        if let Some(class) = k.strip_prefix("C06_panic_seen_") {
            any = true;
            for _ in 0..*v {
                let sig = if class.contains(profirust::verif::FUEL_PANIC) { "C05/hang/ring".to_string() } else { format!("C05/panic/{}", class) };
                rep.violation(sig, format!("a station panicked in a ring under a fault plan ({})", tmp.cur_case));
            }
        }
    }
    for v in &tmp.violations {
        if v.sig.contains("/panic/") {
            any = true;
            rep.violation(format!("C05/panic/{}", v.sig.splitn(3, '/').nth(2).unwrap_or("?")), v.what.clone());
        }
    }
    if !any {
        rep.count("C05_ring_fault_plan_runs_ok");
        if tmp.counters.get("C06_runs_where_disturbance_changed_token_flow").is_some() {
            rep.nontrivial(fnv1a(tmp.cur_case.as_bytes()));
        }
    }
}
