//! C12 — GAP maintenance polls exactly the own GAP; status replies are truthful.
//!
//! Part G: one real station + scripted successor for all (TS, NS, HSA) triples up to a bound and
//! sampled beyond, with successors changing during a sweep (joiner found by the poll itself,
//! successor removed).  Rules over the station's FDL status requests (no application is attached,
//! so every status request is GAP maintenance):
//!   G1 target inside the cyclic open interval (TS, NS), below HSA, never TS, never >= NS
//!   G2 at most one poll per token visit (the whole GAP in one holding right after a claim)
//!   G3 sweep ascending, then G..G+3 poll-free visits; every GAP address within |GAP| + G + 4 visits
//!   G4 a polled station answering "ready" / "in ring" gets the next token
//! Part S: a listening station is asked for its status by its predecessor, other ring members and
//! strangers while a reference LAS decides whether it has seen two identical rotations.

use crate::eng_las::RefLas;
use crate::eng_script::*;
use crate::refcodec::{RFc, RTel};
use crate::util::*;
use crate::vbus::*;
use crate::{Ctx, Tier};

fn gap_addrs(ts: u8, ns: u8, hsa: u8) -> Vec<u8> {
    // cyclic open interval (ts, ns) within 0..hsa; ns == ts: everything but ts
    let mut v = Vec::new();
    let mut a = (ts as u16 + 1) % hsa as u16;
    let mut guard = 0;
    while a as u8 != ns && a as u8 != ts && guard < 200 {
        v.push(a as u8);
        a = (a + 1) % hsa as u16;
        guard += 1;
    }
    v
}

#[derive(Clone, Copy, Debug, PartialEq, Eq)]
pub enum Variant {
    Plain,
    /// a GAP address answers "ready" (state 2) or "in ring" (state 3) at its k-th poll
    Joiner(u8),
    /// the successor stops taking the token after some visits
    NsRemoved,
    /// some GAP addresses are occupied by slaves: they answer the status request (as slaves), which
    /// must not lead to a second poll in the same token visit
    SlavesInGap,
    /// the token gets lost while the successor holds it: the station re-claims it and must scan its
    /// whole (current) GAP right away
    TokenLost,
}

struct G<'a> {
    rig: Rig,
    rep: &'a mut Report,
    descr: String,
    failed: bool,
}

impl<'a> G<'a> {
    fn viol(&mut self, sig: &str, what: String) {
        if !self.failed {
            let hist: Vec<String> = self.rig.history.iter().rev().take(16).rev().cloned().collect();
            self.rep.violation(sig.to_string(), format!("{} [{}] last events: {:?}", what, self.descr, hist));
        }
        self.failed = true;
    }
    fn panicked(&mut self) -> bool {
        if let Some(p) = self.rig.panicked().cloned() {
            self.rep.count(&format!("C12_panic_seen_{}", p.class()));
            self.failed = true;
            return true;
        }
        false
    }
}

pub fn gap_case(rep: &mut Report, seed: u64, idx: u64, ts: u8, ns: u8, hsa: u8, gap_factor: u8, variant: Variant, verbose: bool) {
    let mut rng = Rng::derive(seed, "c12g", idx);
    let mut cfg = ScriptCfg::gen(&mut rng, Some(ts));
    cfg.hsa = hsa;
    cfg.ts = ts;
    cfg.gap = gap_factor;
    rep.evaluations += 1;
    let descr = format!("TS {} NS {} HSA {} G {} {:?} {}", ts, ns, hsa, gap_factor, variant, cfg.json().render());
    if verbose {
        eprintln!("{}", descr);
    }
    let rig = Rig::new(&cfg, app_none(), rng.next_u64());
    let mut g = G { rig, rep, descr, failed: false };
    let alone = ns == ts;
    // ---------- claim + post-claim scan ----------
    let deadline = g.rig.now() + cfg.token_lost_timeout() + 4 * cfg.lat() + cfg.tslot();
    for k in 0..2 {
        let Some(f) = g.rig.next_station_tx(deadline) else {
            if !g.panicked() {
                g.rep.inconclusive(format!("no claim token {}", k));
            }
            return;
        };
        if !is_token(&f, ts, ts) {
            g.viol("C12/setup/no-claim", format!("expected claim token, got {:?}", f.decoded.map(|t| t.short())));
            return;
        }
    }
    let full = gap_addrs(ts, ts, hsa);
    let mut scan: Vec<u8> = Vec::new();
    let mut cur_ns = ts;
    loop {
        let dl = g.rig.now() + cfg.tslot() + 2 * cfg.lat();
        let Some(f) = g.rig.next_station_tx(dl) else {
            if !g.panicked() {
                g.viol("C12/G2/post-claim-scan-stalls", format!("no transmission for a slot time during the post-claim scan after polling {:?}", scan));
            }
            return;
        };
        if let Some(a) = is_status_req_to(&f) {
            // G1 during the scan: ascending through the whole GAP (NS == TS at this point)
            let want = full.get(scan.len()).copied();
            if Some(a) != want {
                let class = if a == ts { "polls-own-address" } else if a >= hsa { "polls-at-or-above-hsa" } else { "scan-order" };
                g.viol(&format!("C12/G1/post-claim-scan/{}", class), format!("post-claim scan polled #{} but the next GAP address is {:?} (polled so far {:?})", a, want, scan));
                return;
            }
            scan.push(a);
            g.rep.count("C12_post_claim_polls_checked");
            if !alone && a == ns {
                let r = g.rig.status_reply(ns, ts, 2);
                g.rig.env_tel(&r, 14);
                cur_ns = ns;
            }
            continue;
        }
        match &f.decoded {
            Some(RTel::Token { sa, da }) if *sa == ts => {
                // the scan is over: it must have covered the whole GAP up to the successor it found
                let want_scan: Vec<u8> = if alone { full.clone() } else { full.iter().copied().take_while(|a| *a != ns).chain(std::iter::once(ns)).collect() };
                if scan != want_scan {
                    g.viol("C12/G2/post-claim-scan-incomplete", format!("post-claim scan polled {:?}, the GAP is {:?}", scan, want_scan));
                    return;
                }
                if *da != cur_ns {
                    g.viol("C12/G4/ready-station-not-made-successor", format!("token {}->{} after the scan, but #{} answered 'ready'", sa, da, cur_ns));
                    return;
                }
                g.rep.count("C12_post_claim_scans_checked");
                break;
            }
            other => {
                g.viol("C12/setup/unexpected-frame", format!("{:?}", other.as_ref().map(|t| t.short())));
                return;
            }
        }
    }
    // ---------- token visits ----------
    // env ring: successor list in ring order after TS (the first one is NS)
    let mut env_ring: Vec<u8> = if alone { vec![] } else { vec![ns] };
    let mut gap = gap_addrs(ts, cur_ns, hsa);
    let n_visits = (gap.len() + gap_factor as usize + 6) * 3 + 10;
    let joiner: Option<u8> = match variant {
        Variant::Joiner(_) if !gap.is_empty() => Some(*rng.pick(&gap)),
        _ => None,
    };
    let joiner_at_poll = 1 + rng.usize(2);
    let slaves_in_gap: Vec<u8> = if variant == Variant::SlavesInGap { gap.iter().copied().filter(|_| rng.chance(2, 3)).collect() } else { vec![] };
    let mut joiner_polls = 0;
    let remove_at = if variant == Variant::NsRemoved && !alone { Some(3 + rng.usize(n_visits / 2)) } else { None };
    let mut visit_polls: Vec<Option<u8>> = Vec::new(); // per visit: polled address
    let mut sweep_pos: Option<usize> = None; // index into gap of the last polled address of the current sweep
    let mut pause = 0usize; // poll-free visits since the sweep ended
    let mut since_polled: std::collections::BTreeMap<u8, usize> = gap.iter().map(|a| (*a, 0usize)).collect();
    let mut first_sweep_seen = false;
    let mut expect_token_to: Option<u8> = None;
    let mut token_at_env = !alone; // after the scan the token went to NS (or stayed)
    let lost_at = if variant == Variant::TokenLost && !alone { Some(2 + rng.usize(n_visits / 2)) } else { None };
    for visit in 0..n_visits {
        if g.failed || g.panicked() {
            return;
        }
        if token_at_env && lost_at == Some(visit) {
            // the successor takes the token (it is heard), then the token vanishes
            let other = (0..126u8).rev().find(|a| *a != ts && !env_ring.contains(a)).unwrap();
            let rq = g.rig.status_request(env_ring[0], other);
            g.rig.env_tel(&rq, 40);
            let dl = g.rig.now() + cfg.token_lost_timeout() + cfg.tslot() + 4 * cfg.lat();
            for k in 0..2 {
                let Some(f) = g.rig.next_station_tx(dl) else {
                    if !g.panicked() {
                        g.viol("C12/setup/no-reclaim-after-token-loss", format!("the bus stayed silent but the station did not claim the token within its time-out (claim token {})", k + 1));
                    }
                    return;
                };
                if !is_token(&f, ts, ts) {
                    g.viol("C12/setup/no-reclaim-after-token-loss", format!("expected a claim token, got {:?}", f.decoded.map(|t| t.short())));
                    return;
                }
            }
            // post-claim scan of the current GAP, in one holding
            let mut scan2: Vec<u8> = Vec::new();
            loop {
                let dl = g.rig.now() + cfg.tslot() + 2 * cfg.lat();
                let Some(f) = g.rig.next_station_tx(dl) else {
                    if !g.panicked() {
                        g.viol("C12/G2/post-claim-scan-stalls", format!("no transmission for a slot time during the scan after re-claiming (polled {:?})", scan2));
                    }
                    return;
                };
                if let Some(a) = is_status_req_to(&f) {
                    scan2.push(a);
                    g.rep.count("C12_post_claim_polls_checked");
                    continue;
                }
                match &f.decoded {
                    Some(RTel::Token { sa, da }) if *sa == ts => {
                        if scan2 != gap {
                            g.viol("C12/G2/post-claim-scan-incomplete", format!("after re-claiming the token the station polled {:?} but its GAP between TS {} and NS {} is {:?}", scan2, ts, cur_ns, gap));
                            return;
                        }
                        if *da != cur_ns {
                            g.viol("C12/token-to-wrong-station", format!("after the re-claim scan the token went to #{} but NS is #{}", da, cur_ns));
                            return;
                        }
                        break;
                    }
                    other => {
                        g.viol("C12/unexpected-frame-while-holding", format!("{:?}", other.as_ref().map(|t| t.short())));
                        return;
                    }
                }
            }
            g.rep.count("C12_reclaim_scans_checked");
            // GAP bookkeeping starts afresh after the scan
            since_polled = gap.iter().map(|a| (*a, 0usize)).collect();
            sweep_pos = None;
            pause = 0;
            first_sweep_seen = false;
        }
        // hand the token back to TS
        if token_at_env {
            if remove_at == Some(visit) {
                // the successor is dead: TS retries twice, then removes it
                let mut n_tok = 0;
                loop {
                    let dl = g.rig.now() + cfg.tslot() + 2 * cfg.lat();
                    let Some(f) = g.rig.next_station_tx(dl) else {
                        if !g.panicked() {
                            g.viol("C12/setup/no-retry", "successor silent but no retry".into());
                        }
                        return;
                    };
                    if let Some(RTel::Token { da, .. }) = &f.decoded {
                        n_tok += 1;
                        if *da != env_ring[0] {
                            // removed; token to the next member or to itself
                            env_ring.remove(0);
                            let want = env_ring.first().copied().unwrap_or(ts);
                            if *da != want {
                                g.viol("C12/setup/wrong-successor-after-removal", format!("token to #{} instead of #{}", da, want));
                                return;
                            }
                            cur_ns = want;
                            break;
                        }
                        if n_tok > 3 {
                            g.viol("C12/setup/too-many-retries", "more than three token attempts".into());
                            return;
                        }
                    } else {
                        g.viol("C12/setup/unexpected-frame", format!("{:?}", f.decoded.map(|t| t.short())));
                        return;
                    }
                }
                // the GAP grew; a fresh view
                gap = gap_addrs(ts, cur_ns, hsa);
                since_polled = gap.iter().map(|a| (*a, 0usize)).collect();
                sweep_pos = None;
                pause = 0;
                first_sweep_seen = false;
                token_at_env = !env_ring.is_empty();
                if !token_at_env {
                    // alone now: the pass TS->TS just seen starts the next visit
                }
                g.rep.count("C12_successor_removed_during_run");
                if token_at_env {
                    let mut cur = cur_ns;
                    for k in 0..env_ring.len() {
                        let next = if k + 1 < env_ring.len() { env_ring[k + 1] } else { ts };
                        g.rig.env_token(cur, next, 40);
                        cur = next;
                    }
                }
            } else {
                let mut cur = env_ring[0];
                for k in 0..env_ring.len() {
                    let next = if k + 1 < env_ring.len() { env_ring[k + 1] } else { ts };
                    g.rig.env_token(cur, next, 40);
                    cur = next;
                }
            }
        }
        // the station holds the token: frames until it passes it
        let mut polled: Option<u8> = None;
        loop {
            let dl = g.rig.now() + cfg.tslot() + 2 * cfg.lat() + cfg.bits(40);
            let Some(f) = g.rig.next_station_tx(dl) else {
                if !g.panicked() {
                    g.viol("C12/holder-falls-silent", format!("visit {}: no transmission for a slot time while holding the token (state {:?})", visit, g.rig.fdl().verif_probe().state));
                }
                return;
            };
            if let Some(a) = is_status_req_to(&f) {
                g.rep.count("C12_gap_polls_checked");
                // G2
                if polled.is_some() {
                    g.viol("C12/G2/two-polls-in-one-visit", format!("visit {}: polled #{} and #{} in the same token visit", visit, polled.unwrap(), a));
                    return;
                }
                // G1
                if !gap.contains(&a) {
                    let class = if a == ts {
                        "polls-own-address"
                    } else if a >= hsa {
                        "polls-at-or-above-hsa"
                    } else if a == cur_ns {
                        "polls-successor"
                    } else {
                        "polls-beyond-successor"
                    };
                    g.viol(&format!("C12/G1/{}", class), format!("visit {}: GAP poll to #{} but the GAP between TS {} and NS {} (HSA {}) is {:?}", visit, a, ts, cur_ns, hsa, gap));
                    return;
                }
                polled = Some(a);
                if slaves_in_gap.contains(&a) {
                    let r = g.rig.status_reply(a, ts, 0);
                    g.rig.env_tel(&r, 14);
                    g.rep.count("C12_gap_polls_answered_by_slaves");
                }
                // joiner answers at its k-th poll
                if Some(a) == joiner {
                    joiner_polls += 1;
                    if joiner_polls == joiner_at_poll {
                        let st = if let Variant::Joiner(s) = variant { s } else { 2 };
                        let r = g.rig.status_reply(a, ts, st);
                        g.rig.env_tel(&r, 14);
                        expect_token_to = Some(a);
                    }
                }
                continue;
            }
            match &f.decoded {
                Some(RTel::Token { sa, da }) if *sa == ts => {
                    if let Some(j) = expect_token_to.take() {
                        // G4
                        if *da != j {
                            g.viol("C12/G4/ready-station-not-made-successor", format!("#{} answered the GAP poll as a ready master but the next token went to #{}", j, da));
                            return;
                        }
                        g.rep.count("C12_G4_joiners_admitted");
                        // the joiner is the successor now; it passes on to the old ring
                        env_ring.insert(0, j);
                        cur_ns = j;
                        gap = gap_addrs(ts, cur_ns, hsa);
                        since_polled = gap.iter().map(|a| (*a, 0usize)).collect();
                        // the sweep position continues or ends depending on the implementation: restart tracking
                        sweep_pos = None;
                        pause = 0;
                        first_sweep_seen = false;
                        polled = None;
                        token_at_env = true;
                        visit_polls.push(None);
                        break;
                    }
                    if *da != cur_ns {
                        g.viol("C12/token-to-wrong-station", format!("visit {}: token {}->{} but NS is {}", visit, sa, da, cur_ns));
                        return;
                    }
                    token_at_env = cur_ns != ts;
                    // ----- G3 bookkeeping -----
                    for (_, v) in since_polled.iter_mut() {
                        *v += 1;
                    }
                    match polled {
                        Some(a) => {
                            since_polled.insert(a, 0);
                            let pos = gap.iter().position(|x| *x == a).unwrap();
                            match sweep_pos {
                                None => {
                                    // a sweep starts (or continues after a view change): after a
                                    // completed pause it must start at the first GAP address
                                    if first_sweep_seen && pos != 0 {
                                        g.viol("C12/G3/sweep-does-not-start-at-first-gap-address", format!("visit {}: sweep started at #{} but the GAP is {:?}", visit, a, gap));
                                        return;
                                    }
                                    if first_sweep_seen {
                                        // pause length
                                        let gf = gap_factor as usize;
                                        g.rep.min("C12_min_pause_minus_G", pause as f64 - gf as f64);
                                        g.rep.max("C12_max_pause_minus_G", pause as f64 - gf as f64);
                                        if pause < gf || pause > gf + 3 {
                                            g.viol("C12/G3/pause-length", format!("{} poll-free visits between two sweeps, gap factor {}", pause, gf));
                                            return;
                                        }
                                        g.rep.count("C12_G3_pauses_checked");
                                    }
                                }
                                Some(prev) => {
                                    if pos != prev + 1 {
                                        g.viol("C12/G3/sweep-not-ascending", format!("visit {}: polled #{} after #{} (GAP {:?})", visit, a, gap[prev], gap));
                                        return;
                                    }
                                }
                            }
                            sweep_pos = Some(pos);
                            pause = 0;
                        }
                        None => {
                            if let Some(prev) = sweep_pos {
                                // no poll although the sweep was under way: allowed only at its end
                                if prev + 1 != gap.len() {
                                    g.viol("C12/G3/sweep-interrupted", format!("visit {}: no GAP poll although the sweep had only reached #{} of {:?}", visit, gap[prev], gap));
                                    return;
                                }
                                sweep_pos = None;
                                first_sweep_seen = true;
                                g.rep.count("C12_G3_sweeps_completed");
                            }
                            pause += 1;
                            if !gap.is_empty() && pause > gap_factor as usize + 3 && (first_sweep_seen || visit > gap_factor as usize + 4) {
                                g.viol("C12/G3/gap-never-polled", format!("{} consecutive poll-free token visits with a non-empty GAP {:?} and gap factor {}", pause, gap, gap_factor));
                                return;
                            }
                        }
                    }
                    let bound = gap.len() + gap_factor as usize + 4;
                    if let Some((a, v)) = since_polled.iter().find(|(_, v)| **v > bound) {
                        g.viol("C12/G3/gap-address-starved", format!("#{} was not polled for {} token visits (|GAP| {} + G {} + 4)", a, v, gap.len(), gap_factor));
                        return;
                    }
                    visit_polls.push(polled);
                    break;
                }
                other => {
                    g.viol("C12/unexpected-frame-while-holding", format!("{:?}", other.as_ref().map(|t| t.short())));
                    return;
                }
            }
        }
    }
    if g.failed {
        return;
    }
    g.rep.count("C12_gap_cases_completed");
    g.rep.add("C12_token_visits_checked", visit_polls.len() as u64);
    let n_pauses = g.rep.counters.get("C12_G3_pauses_checked").copied().unwrap_or(0);
    let _ = n_pauses;
    if first_sweep_seen || gap.is_empty() {
        g.rep.nontrivial_enum();
    }
    if idx % 256 < 2 {
        let d = g.descr.clone();
        g.rep.sample(J::obj(vec![("kind", J::s("GAP maintenance of one station, scripted successor")), ("case", J::s(d)), ("polls_per_visit", J::s(format!("{:?}", &visit_polls[..visit_polls.len().min(40)])))]));
    }
}

/// Part S: status replies of a listening / in-ring station.
pub fn status_case(rep: &mut Report, seed: u64, idx: u64, verbose: bool) {
    let mut rng = Rng::derive(seed, "c12s", idx);
    let cfg = ScriptCfg::gen(&mut rng, None);
    let ts = cfg.ts;
    rep.evaluations += 1;
    // environment ring of 1..4 stations (< hsa), strangers
    let mut ring: Vec<u8> = Vec::new();
    while ring.len() < 1 + rng.usize(4) {
        let a = rng.below(cfg.hsa as u64) as u8;
        if a != ts && !ring.contains(&a) {
            ring.push(a);
        }
    }
    ring.sort();
    let stranger = (0..126u8).rev().find(|a| *a != ts && !ring.contains(a)).unwrap();
    let descr = format!("{} ring {:?} stranger {}", cfg.json().render(), ring, stranger);
    if verbose {
        eprintln!("{}", descr);
    }
    let mut rig = Rig::new(&cfg, app_none(), rng.next_u64());
    let mut model = RefLas::new(ts);
    let mut cur = ring[rng.usize(ring.len())];
    let hops = ring.len() * 5 + rng.usize(6);
    let mut asked = 0;
    let mut viol: Option<(String, String)> = None;
    let mut in_ring_expected = false;
    'outer: for hop in 0..hops {
        let k = ring.iter().position(|x| *x == cur).unwrap();
        let next = ring[(k + 1) % ring.len()];
        rig.env_token(cur, next, 40);
        model.witness(cur, next);
        cur = next;
        if rig.panicked().is_some() {
            rep.count("C12_panic_seen");
            return;
        }
        // sometimes the station's poll() stalls for longer than a slot time while a status request for
        // it and the requester's next telegram arrive: the stale request must not be answered
        if rng.chance(1, 12) {
            rig.settle();
            rig.world.stations[0].running = false;
            let rq = rig.status_request(cur, ts);
            rig.env_tel(&rq, 40);
            let k = ring.iter().position(|x| *x == cur).unwrap();
            let next = ring[(k + 1) % ring.len()];
            // the requester waits its slot time in vain and carries on
            let t = rig.now() + cfg.tslot() + cfg.bits(20);
            rig.run_until(t);
            rig.env_token(cur, next, 34);
            model.witness(cur, next);
            cur = next;
            rig.world.stations[0].running = true;
            let until = rig.now() + cfg.tslot() + cfg.lat();
            if let Err(f) = rig.station_silent_until(until) {
                viol = Some(("C12/S/answers-stale-request-after-slot-time".into(), format!("the station did not poll for more than a slot time; the status request it found afterwards (followed by another telegram) was answered {}us after the request: {:?}", f.start - (t - cfg.tslot() - cfg.bits(20)), f.decoded.map(|t| t.short()))));
                break 'outer;
            }
            rep.count("C12_S_stale_requests_not_answered");
            continue;
        }
        // sometimes somebody asks for the station's status (the token holder `cur` or a stranger)
        if rng.chance(1, 2) {
            rig.settle();
            let ps_model = model.ps();
            let who = match rng.usize(4) {
                0 => stranger,
                1 => ps_model,
                _ => cur,
            };
            // (before anything was learnt the model's predecessor is the station itself)
            let who = if who == ts { stranger } else { who };
            // requests to other addresses must not be answered
            if rng.chance(1, 4) {
                let other = (0..126u8).find(|a| *a != ts && *a != who).unwrap();
                let rq = rig.status_request(who, other);
                let e = rig.env_tel(&rq, 40);
                if let Err(f) = rig.station_silent_until(e + cfg.tslot()) {
                    viol = Some(("C12/S/answers-request-for-other-station".into(), format!("status request {}->{} answered by the station: {:?}", who, other, f.decoded.map(|t| t.short()))));
                    break 'outer;
                }
                rep.count("C12_S_foreign_requests_ignored");
                continue;
            }
            let in_ring_before = rig.fdl().is_in_ring();
            let ready = model.is_valid();
            let rq = rig.status_request(who, ts);
            let e = rig.env_tel(&rq, 40);
            asked += 1;
            let Some(f) = rig.next_station_tx(e + cfg.tslot()) else {
                if rig.panicked().is_none() {
                    viol = Some(("C12/S/no-reply-within-slot-time".into(), format!("status request {}->{} at hop {}: no reply within the slot time", who, ts, hop)));
                }
                break 'outer;
            };
            if f.start < e + cfg.bits(11) - 1 {
                viol = Some(("C12/S/reply-before-min-tsdr".into(), format!("reply started {}us after the request", f.start - e)));
                break 'outer;
            }
            let want_state = if in_ring_before || in_ring_expected {
                3
            } else if ready && who == ps_model {
                2
            } else {
                1
            };
            match &f.decoded {
                Some(RTel::Data { da, sa, fc: RFc::Resp { state, status: 0 }, pdu, dsap: None, ssap: None }) if *da == who && *sa == ts && pdu.is_empty() => {
                    if *state != want_state {
                        let names = ["slave", "not-ready", "ready", "in-ring"];
                        viol = Some((
                            format!("C12/S/reports-{}-instead-of-{}", names[*state as usize], names[want_state as usize]),
                            format!("status request from #{} (predecessor per witnessed traffic: #{}, two identical rotations seen: {}, in ring: {}): reported '{}', expected '{}'", who, ps_model, ready, in_ring_before, names[*state as usize], names[want_state as usize]),
                        ));
                        break 'outer;
                    }
                    rep.count(&format!("C12_S_replies_{}", ["slave", "not_ready", "ready", "in_ring"][want_state as usize]));
                }
                other => {
                    viol = Some(("C12/S/malformed-status-reply".into(), format!("{:?}", other.as_ref().map(|t| t.short()))));
                    break 'outer;
                }
            }
            // once it said "ready" to its predecessor (or is in ring) it must be given the token; we do
            // not do that here, so from now on "in ring" is the truthful answer
            if want_state == 2 {
                in_ring_expected = true;
            }
            if want_state != 1 && rig.fdl().is_in_ring() {
                in_ring_expected = true;
            }
            // (the library also enters the ring after answering 'not ready' to a non-predecessor once
            //  its LAS is valid; is_in_ring() is sampled before every request, so that is followed)
            rig.settle();
        }
    }
    if let Some((sig, what)) = viol {
        let hist: Vec<String> = rig.history.iter().rev().take(14).rev().cloned().collect();
        rep.violation(sig, format!("{} [{}] last events: {:?}", what, descr, hist));
        return;
    }
    if asked > 0 {
        let mut fp = Fp::new();
        fp.s(&descr).u(idx);
        rep.nontrivial(fp.get());
    }
    rep.count("C12_status_cases_completed");
}

pub fn c12(ctx: &mut Ctx) {
    let seed = ctx.seed;
    if let Some(only) = ctx.only.clone() {
        let s = only.iter().position(|x| x == "seed").and_then(|k| only.get(k + 1)).and_then(|x| x.parse().ok()).unwrap_or(seed);
        match only[0].as_str() {
            "c12g" => {
                let v: Vec<u64> = only[1..7].iter().map(|x| x.parse().unwrap()).collect();
                let variant = match v[5] {
                    0 => Variant::Plain,
                    2 | 3 => Variant::Joiner(v[5] as u8),
                    7 => Variant::TokenLost,
                    5 => Variant::SlavesInGap,
                    _ => Variant::NsRemoved,
                };
                gap_case(&mut ctx.rep, s, v[0], v[1] as u8, v[2] as u8, v[3] as u8, v[4] as u8, variant, true);
            }
            "c12s" => status_case(&mut ctx.rep, s, only[1].parse().unwrap(), true),
            _ => {}
        }
        return;
    }
    let max_hsa = match ctx.tier {
        Tier::Quick => 8,
        Tier::Thorough => 12,
        Tier::Miri => 3,
    };
    let mut idx = 0u64;
    for hsa in 2..=max_hsa as u8 {
        for ts in 0..hsa {
            for ns in 0..hsa {
                for gf in [1u8, 3] {
                    for (vc, variant) in [(0u64, Variant::Plain), (2, Variant::Joiner(2)), (3, Variant::Joiner(3)), (9, Variant::NsRemoved), (7, Variant::TokenLost), (5, Variant::SlavesInGap)] {
                        idx += 1;
                        if !ctx.mine(idx) {
                            continue;
                        }
                        ctx.rep.cur_case = format!("c12g {} {} {} {} {} {} seed {}", idx, ts, ns, hsa, gf, vc, seed);
                        gap_case(&mut ctx.rep, seed, idx, ts, ns, hsa, gf, variant, false);
                        ctx.rep.count("C12_systematic_triples");
                    }
                }
            }
        }
    }
    // sampled up to HSA 126 and gap factor 100
    let n = ctx.n(2400, 300_000, 1);
    let mut rng = Rng::derive(seed, "c12sample", ctx.shard);
    for k in 0..n {
        let i = 5_000_000 + ctx.shard + k * ctx.nshards;
        let hsa = 2 + rng.below(125) as u8;
        let ts = match rng.usize(4) {
            0 => 0,
            1 => hsa - 1,
            _ => rng.below(hsa as u64) as u8,
        };
        let ns = match rng.usize(5) {
            0 => ts,
            1 => (ts as u16 + hsa as u16 - 1) as u8 % hsa,
            2 => hsa - 1,
            3 => (ts + 1) % hsa,
            _ => rng.below(hsa as u64) as u8,
        };
        let gf = *rng.pick(&[1u8, 2, 5, 10, 40, 100]);
        // keep the run length sane
        let gf = if hsa > 40 { gf.min(10) } else { gf };
        let (vc, variant) = *rng.pick(&[(0u64, Variant::Plain), (2, Variant::Joiner(2)), (3, Variant::Joiner(3)), (9, Variant::NsRemoved), (7, Variant::TokenLost), (5, Variant::SlavesInGap)]);
        ctx.rep.cur_case = format!("c12g {} {} {} {} {} {} seed {}", i, ts, ns, hsa, gf, vc, seed);
        gap_case(&mut ctx.rep, seed, i, ts, ns, hsa, gf, variant, false);
    }
    let n = ctx.n(24_000, 3_000_000, 3);
    for k in 0..n {
        let i = ctx.shard + k * ctx.nshards;
        ctx.rep.cur_case = format!("c12s {} seed {}", i, seed);
        status_case(&mut ctx.rep, seed, i, false);
    }
}
