//! DP rig: one real FdlActiveStation + DpMaster (behind the application tap) with reference slaves
//! on the virtual bus, per-transaction fault injection, user calls between polls, and the monitors
//! for C03 (bring-up gating + Set_Prm/Chk_Cfg content), C04 (process images), C07 (bounded
//! recovery), C08 (FCB / retry discipline), C14 (cycle and event accounting) and C17 (diagnostics).
//!
//! "Delivered" always means handed to the DP master through `receive_reply` (the tap), never "seen
//! on the wire".

use crate::refcodec::{self as rc, RFc, RTel};
use crate::refslave::*;
use crate::sim::*;
use crate::util::*;
use crate::vbus::*;
use crate::{Ctx, Tier};
use profirust::dp::{self, DpMaster, PeripheralEvent, PeripheralHandle};
use profirust::fdl::{self, FdlActiveStation};
use profirust::time::Instant;
use std::cell::RefCell;
use std::collections::BTreeMap;
use std::rc::Rc;

pub struct DpApps<'a> {
    pub dp: Tap<DpMaster<'a>>,
}

impl<'a> StationApps for DpApps<'a> {
    fn poll(&mut self, now: Instant, fdl: &mut FdlActiveStation, phy: &mut MonPhy) {
        fdl.poll(now, phy, &mut self.dp);
    }
}

#[derive(Clone, Debug)]
pub struct PeriphCfg {
    pub addr: u8,
    pub ident: u16,
    pub cfg: Vec<u8>,
    pub user_prm: Vec<u8>,
    pub in_len: usize,
    pub out_len: usize,
    pub sync: bool,
    pub freeze: bool,
    pub groups: u8,
    pub diag_buf: usize,
    /// the slave's real configuration / ident (differs for mis-configured peripherals)
    pub slave_cfg: Vec<u8>,
    pub slave_ident: u16,
    pub present: bool,
}

#[derive(Clone, Debug)]
pub struct DpCfg {
    pub baud: profirust::Baudrate,
    pub slot_bits: u16,
    pub master: u8,
    pub hsa: u8,
    pub retry_limit: u8,
    pub min_tsdr: u8,
    pub watchdog_ms: Option<u64>,
    pub ttr_bits: u32,
    pub periphs: Vec<PeriphCfg>,
    /// Some(n): fixed array of n slots with the peripherals at `slots`; None: growing Vec
    pub array_slots: Option<usize>,
    pub period: Us,
    pub gap: u8,
}

impl DpCfg {
    pub fn json(&self) -> J {
        J::obj(vec![
            ("baud", J::U(self.baud.to_rate())),
            ("slot_bits", J::U(self.slot_bits as u64)),
            ("master", J::U(self.master as u64)),
            ("hsa", J::U(self.hsa as u64)),
            ("retry_limit", J::U(self.retry_limit as u64)),
            ("min_tsdr", J::U(self.min_tsdr as u64)),
            ("watchdog_ms", self.watchdog_ms.map(J::U).unwrap_or(J::Null)),
            ("ttr_bits", J::U(self.ttr_bits as u64)),
            ("storage", J::s(self.array_slots.map(|n| format!("array[{}]", n)).unwrap_or("vec".into()))),
            ("poll_period_us", J::I(self.period)),
            (
                "peripherals",
                J::A(self
                    .periphs
                    .iter()
                    .map(|p| {
                        J::s(format!(
                            "#{} ident {:04x} cfg[{}] prm[{}] in {} out {} sync {} freeze {} groups {:02x} diagbuf {}{}{}",
                            p.addr,
                            p.ident,
                            p.cfg.len(),
                            p.user_prm.len(),
                            p.in_len,
                            p.out_len,
                            p.sync,
                            p.freeze,
                            p.groups,
                            p.diag_buf,
                            if p.slave_cfg != p.cfg || p.slave_ident != p.ident { " MISCONFIGURED" } else { "" },
                            if p.present { "" } else { " ABSENT" }
                        ))
                    })
                    .collect()),
            ),
        ])
    }
    pub fn tslot(&self) -> Us {
        bits_to_us(self.baud, self.slot_bits as u64)
    }
}

pub fn gen_dp_cfg(rng: &mut Rng, nper_min: usize, nper_max: usize, big_images: bool) -> DpCfg {
    let baud = *rng.pick(&ALL_BAUDS);
    let slot_min = min_slot_bits(baud);
    let slot_bits = slot_min + *rng.pick(&[0u16, 0, 50, 200]) + rng.below(50) as u16;
    let nper = nper_min + rng.usize(nper_max - nper_min + 1);
    let master = rng.below(20) as u8;
    let mut addrs: Vec<u8> = Vec::new();
    while addrs.len() < nper {
        let a = rng.below(126) as u8;
        if a != master && !addrs.contains(&a) {
            addrs.push(a);
        }
    }
    let hsa = (master + 1 + rng.below(6) as u8).min(126);
    let periphs = addrs
        .iter()
        .map(|a| {
            let (in_len, out_len) = if big_images {
                let pick = |rng: &mut Rng| match rng.usize(6) {
                    0 => 0,
                    1 => 1,
                    2 => 244,
                    3 => rng.usize(245),
                    _ => rng.usize(17),
                };
                (pick(rng), pick(rng))
            } else {
                (rng.usize(9), rng.usize(9))
            };
            let cfg_max = if big_images && rng.chance(1, 8) { 244 } else { 12 };
            let cfg_len = 1 + rng.usize(cfg_max);
            let cfg = rng.bytes(cfg_len);
            let ident = rng.below(65536) as u16;
            PeriphCfg {
                addr: *a,
                ident,
                slave_cfg: cfg.clone(),
                slave_ident: ident,
                cfg,
                user_prm: {
                    let m = if rng.chance(1, 8) { 238 } else { 10 };
                    let l = rng.usize(m);
                    rng.bytes(l)
                },
                in_len,
                out_len,
                sync: rng.chance(1, 3),
                freeze: rng.chance(1, 3),
                groups: if rng.bool() { 0 } else { rng.u8() },
                diag_buf: *rng.pick(&[0usize, 0, 1, 8, 64, 244]),
                present: true,
            }
        })
        .collect();
    let mut periphs: Vec<PeriphCfg> = periphs;
    for p in periphs.iter_mut() {
        match rng.usize(14) {
            0 => p.slave_ident = p.ident.wrapping_add(1), // -> Prm_Fault
            1 => {
                // -> Cfg_Fault
                p.slave_cfg = p.cfg.clone();
                p.slave_cfg[0] ^= 0x01;
            }
            2 => p.present = false, // nobody answers on this address
            _ => {}
        }
    }
    let pmax = max_period(baud, slot_bits);
    DpCfg {
        baud,
        slot_bits,
        master,
        hsa,
        retry_limit: {
            let r = 1 + rng.below(15) as u8;
            *rng.pick(&[1u8, 1, 2, 3, 15, r])
        },
        min_tsdr: 11 + rng.below(30) as u8,
        watchdog_ms: if rng.bool() {
            None
        } else {
            let r = 10 + rng.below(649_990);
            Some(*rng.pick(&[10u64, 15, 100, 2550, 2560, 12345, 650_000, r]))
        },
        ttr_bits: {
            let r = 256 + rng.below(50_000) as u32;
            *rng.pick(&[256u32, 2000, 32436, 100_000, r])
        },
        periphs,
        array_slots: if rng.bool() { None } else { Some(nper + rng.usize(5)) },
        period: *rng.pick(&[pmax, (pmax / 2).max(1), (pmax / 5).max(1)]),
        gap: *rng.pick(&[1u8, 10, 100]),
    }
}

// ------------------------------------------------------------------------------------------------
// The rig
// ------------------------------------------------------------------------------------------------

pub struct SlaveHandle {
    pub core: Rc<RefCell<SlaveCore>>,
    pub script: Rc<RefCell<Vec<Fault>>>,
    pub random_pct: Rc<RefCell<u64>>,
    pub log: Rc<RefCell<Vec<Txn>>>,
}

/// Per-peripheral monitor state.
#[derive(Default)]
pub struct PerMon {
    // C03
    pub stage: u8,
    pub last_req_kind: Option<&'static str>,
    // C08
    pub last_req: Option<(bool, bool, &'static str, Vec<u8>)>, // (fcv, fcb, kind, raw frame)
    pub reply_since_last_req: Option<bool>,                     // Some(accepted?) if a reply was delivered since the last request
    pub need_first: bool,
    pub unanswered_run: u32,
    pub offline_probing: bool,
    pub last_probe_cycle: Option<u64>,
    pub offline_events_since_online: u32,
    /// transmissions to this peripheral since the last *acceptable* reply was delivered
    pub tx_since_accepted: u32,
    // C14
    pub life: u8, // 0 down, 1 online, 2 configured
    pub dx_since_configured: bool,
    pub requests_this_cycle: u32,
    pub cycles_without_request: u32,
    pub was_live: bool,
    // C04
    pub pi_i_shadow: Vec<u8>,
    pub pi_q_shadow: Vec<u8>,
    pub awaiting_dx: bool,
    // C17
    pub ext_shadow: Option<Vec<u8>>,
    pub diag_checked: u64,
    pub log_seen: usize,
}

pub struct DpRun<'a> {
    pub cfg: DpCfg,
    pub world: World<DpApps<'a>>,
    pub handles: Vec<PeripheralHandle>,
    pub slaves: Vec<SlaveHandle>,
    pub mon: Vec<PerMon>,
    pub trace_idx: usize,
    pub cycles: u64,
    pub master_port: usize,
    /// which property's rules raise violations ("*" = all; others are only counted)
    pub judge: &'static str,
    pub slot_order: Vec<usize>, // peripheral indices in storage-slot order
    pub last_dp_req_idx: Option<usize>,
    pub cycle_addr_seq: Vec<u8>,
    pub dead: bool,
    pub last_cycle_completed_at: Us,
    pub dx_events: u64,
}

pub fn kind_of(tel: &RTel) -> &'static str {
    match tel {
        RTel::Data { dsap, ssap, fc, da, .. } if fc.is_req() => match (dsap, ssap, fc.req_code()) {
            (_, _, Some(rc::REQ_FDL_STATUS)) => "fdl-status",
            (Some(58), Some(62), _) if *da == 127 => "global-control",
            (Some(60), Some(62), _) => "slave-diag",
            (Some(61), Some(62), _) => "set-prm",
            (Some(62), Some(62), _) => "chk-cfg",
            (None, None, Some(rc::REQ_SRD_HIGH)) => "data-exchange",
            _ => "other",
        },
        _ => "not-a-request",
    }
}

pub fn storage_for<'a>(cfg: &DpCfg) -> DpMaster<'a> {
    match cfg.array_slots {
        None => DpMaster::new(Vec::new()),
        Some(n) => {
            let v: Vec<dp::PeripheralStorage<'a>> = (0..n).map(|_| Default::default()).collect();
            // a fixed-size (borrowed) storage: leak one small slice per case
            let b: &'a mut [dp::PeripheralStorage<'a>] = Box::leak(v.into_boxed_slice());
            DpMaster::new(b)
        }
    }
}

impl<'a> DpRun<'a> {
    /// `bufs`: per peripheral (user_prm, cfg) slices that outlive the run.
    pub fn build(cfg: &DpCfg, bufs: &'a [(Vec<u8>, Vec<u8>)], seed: u64, judge: &'static str) -> DpRun<'a> {
        let mut world: World<DpApps<'a>> = World::new(cfg.baud, seed);
        let mut dpm = storage_for(cfg);
        let mut handles = Vec::new();
        let mut slaves = Vec::new();
        let mut mon = Vec::new();
        for (i, p) in cfg.periphs.iter().enumerate() {
            let opts = dp::PeripheralOptions {
                ident_number: p.ident,
                sync_mode: p.sync,
                freeze_mode: p.freeze,
                groups: p.groups,
                max_tsdr: 60,
                fail_safe: false,
                user_parameters: Some(&bufs[i].0[..]),
                config: Some(&bufs[i].1[..]),
            };
            let mut per = dp::Peripheral::new(p.addr, opts, vec![0u8; p.in_len], vec![0u8; p.out_len]);
            if p.diag_buf > 0 {
                per = per.with_diag_buffer(vec![0u8; p.diag_buf]);
            }
            handles.push(dpm.add(per));
            mon.push(PerMon {
                need_first: true,
                offline_probing: true,
                pi_i_shadow: vec![0; p.in_len],
                pi_q_shadow: vec![0; p.out_len],
                ..Default::default()
            });
        }
        dpm.enter_operate();
        let mut b = fdl::ParametersBuilder::new(cfg.master, cfg.baud);
        b.slot_bits(cfg.slot_bits)
            .highest_station_address(cfg.hsa)
            .token_rotation_bits(cfg.ttr_bits)
            .gap_wait_rotations(cfg.gap)
            .max_retry_limit(cfg.retry_limit)
            .min_tsdr(cfg.min_tsdr);
        if let Some(ms) = cfg.watchdog_ms {
            b.watchdog_timeout(profirust::time::Duration::from_millis(ms));
        }
        let param = b.build();
        let idx = world.add_station(param, DpApps { dp: Tap::new(dpm) }, cfg.period, 10);
        let master_port = world.stations[idx].phy.port;
        world.set_online(idx);
        for p in cfg.periphs.iter() {
            let port = world.new_device_port(&format!("slave#{}", p.addr));
            let mut core = SlaveCore::new(p.addr, p.slave_ident, p.slave_cfg.clone(), p.in_len, p.out_len);
            core.present = p.present;
            core.strict_sap = p.slave_ident & 1 == 1;
            let core = Rc::new(RefCell::new(core));
            let script = Rc::new(RefCell::new(Vec::new()));
            let random_pct = Rc::new(RefCell::new(0u64));
            let log = Rc::new(RefCell::new(Vec::new()));
            world.add_device(Box::new(RefSlave {
                port,
                baud: cfg.baud,
                core: core.clone(),
                script: script.clone(),
                random_fault_pct: random_pct.clone(),
                random_alphabet: Vec::new(),
                log: log.clone(),
                min_tsdr_bits: cfg.min_tsdr as u64,
                max_tsdr_bits: (cfg.min_tsdr as u64 + 30).min(cfg.slot_bits as u64 - 20),
                late_spread_bits: 100,
                slot_bits: cfg.slot_bits as u64,
            }));
            slaves.push(SlaveHandle { core, script, random_pct, log });
        }
        // storage-slot order = order of add() (first free slot), which is index order here
        let slot_order = (0..cfg.periphs.len()).collect();
        DpRun {
            cfg: cfg.clone(),
            world,
            handles,
            slaves,
            mon,
            trace_idx: 0,
            cycles: 0,
            master_port,
            judge,
            slot_order,
            last_dp_req_idx: None,
            cycle_addr_seq: Vec::new(),
            dead: false,
            last_cycle_completed_at: 0,
            dx_events: 0,
        }
    }

    fn viol(&self, rep: &mut Report, prop: &str, sig: String, what: String) {
        if self.judge == "*" || self.judge == prop {
            rep.violation(sig, format!("{} ({})", what, self.cfg.json().render()));
        } else {
            rep.count(&format!("other_property_rule_fired_{}", prop));
        }
    }

    pub fn per_index(&self, addr: u8) -> Option<usize> {
        self.cfg.periphs.iter().position(|p| p.addr == addr)
    }

    pub fn dp(&mut self) -> &mut DpMaster<'a> {
        &mut self.world.stations[0].apps.dp.inner
    }

    /// User writes to the output image (kept in the shadow copy).
    pub fn write_outputs(&mut self, i: usize, rng: &mut Rng) {
        let h = self.handles[i];
        let n = self.cfg.periphs[i].out_len;
        if n == 0 {
            return;
        }
        let k = 1 + rng.usize(n.min(4));
        let writes: Vec<(usize, u8)> = (0..k).map(|_| (rng.usize(n), rng.u8())).collect();
        let q = self.dp().get_mut(h).pi_q_mut();
        for (pos, v) in &writes {
            q[*pos] = *v;
        }
        for (pos, v) in writes {
            self.mon[i].pi_q_shadow[pos] = v;
        }
    }

    /// One event of the world; runs all monitors after a master poll.  Returns false when the run is over.
    pub fn step(&mut self, rep: &mut Report, rng: &mut Rng) -> bool {
        // logical hang detection: a budget of loop iterations per poll() call
        profirust::verif::set_fuel(200_000);
        if self.world.polls % 64 == 0 && past_deadline() {
            // (budgeted runs only: the case is cut short, what was observed so far stays)
            return false;
        }
        let Some(s) = self.world.step() else { return false };
        match s {
            Stepped::Polled(0) => {
                if let Some(p) = self.world.stations[0].panic.clone() {
                    self.dead = true;
                    self.viol(rep, "C05", format!("C05/panic/{}", p.class()), format!("poll() panicked at {}us: {}", self.world.now, p.message));
                    if p.message.starts_with(profirust::verif::FUEL_PANIC) {
                        self.viol(rep, "C14", "C14/turn-never-ends".into(), format!("loop fuel exhausted: {}", p.message));
                    } else if self.judge == "C17" {
                        // the C17 rig only feeds diagnostics replies: a panic inside poll() is the
                        // ext-diag iterator / Debug formatting failing on that reply
                        self.viol(rep, "C17", format!("C17/panic/{}", p.class()), format!("poll() panicked while processing a diagnostics reply: {}", p.message));
                    } else if self.judge == "C04" {
                        self.viol(rep, "C04", format!("C04/master-crashed/{}", p.class()), format!("the master panicked: {}", p.message));
                    }
                    return false;
                }
                self.after_master_poll(rep);
                true
            }
            Stepped::Action(id) => {
                self.user_action(id, rng);
                true
            }
            Stepped::Idle | Stepped::DeviceSent(_) => {
                // scripted user calls that are tied to a slave transaction
                for i in 0..self.slaves.len() {
                    let fire = {
                        let log = self.slaves[i].log.borrow();
                        let mut fire = false;
                        for t in log.iter().skip(self.mon[i].log_seen) {
                            if t.fault == Fault::UserDiagRequest {
                                fire = true;
                            }
                        }
                        self.mon[i].log_seen = log.len();
                        fire
                    };
                    if fire {
                        let h = self.handles[i];
                        self.dp().get_mut(h).request_diagnostics();
                    }
                }
                true
            }
            _ => true,
        }
    }

    /// C17: the diagnostics the master reports equal the bytes of the delivered reply.
    fn check_diag(&mut self, rep: &mut Report, i: usize, pdu: &[u8]) {
        let h = self.handles[i];
        let addr = self.cfg.periphs[i].addr;
        let buf_len = self.cfg.periphs[i].diag_buf;
        let ext = &pdu[6..];
        let want_flags = u16::from_le_bytes([pdu[0], pdu[1]]) & !0x0400;
        let want_ident = u16::from_be_bytes([pdu[4], pdu[5]]);
        let want_master = if pdu[3] == 255 { None } else { Some(pdu[3]) };
        let ext_flag = pdu[0] & 0x08 != 0;
        let prev = self.mon[i].ext_shadow.clone();
        let want_ext: Option<Vec<u8>> = if buf_len == 0 {
            None
        } else if ext_flag && ext.len() <= buf_len {
            Some(ext.to_vec())
        } else {
            Some(prev.clone().unwrap_or_default())
        };
        let r = catch(|| {
            let p = self.world.stations[0].apps.dp.inner.get_mut(h);
            let Some(d) = p.last_diagnostics() else { return Err(("C17/no-diagnostics-after-reply".to_string(), "last_diagnostics() is None after an accepted diagnostics reply".to_string())) };
            if d.flags.bits() != want_flags {
                return Err(("C17/flags-differ".to_string(), format!("flags {:04x} but the reply bytes say {:04x}", d.flags.bits(), want_flags)));
            }
            if d.ident_number != want_ident {
                return Err(("C17/ident-differs".to_string(), format!("ident {:04x} but the reply says {:04x}", d.ident_number, want_ident)));
            }
            if d.master_address != want_master {
                return Err(("C17/master-address-differs".to_string(), format!("master address {:?} but the reply says {:?}", d.master_address, want_master)));
            }
            let raw = d.extended_diagnostics.raw_diag_buffer().map(|b| b.to_vec());
            if raw != want_ext {
                let class = if ext_flag && ext.len() > buf_len { "stored-although-too-big-or-lost" } else if !ext_flag { "stored-without-ext-diag-flag" } else { "not-stored" };
                return Err((format!("C17/ext-diag-storage/{}", class), format!("raw_diag_buffer() = {:?} but expected {:?} (buffer {} bytes, ext diag {} bytes, Ext_Diag flag {})", raw.map(|r| hex(&r)), want_ext.as_ref().map(|r| hex(r)), buf_len, ext.len(), ext_flag)));
            }
            if d.extended_diagnostics.is_available() != (buf_len > 0) {
                return Err(("C17/is-available".to_string(), "is_available() disagrees with the buffer".to_string()));
            }
            // block iteration vs the reference parser
            if let Some(raw) = &raw {
                let want_blocks = crate::eng_diag::ref_blocks(raw);
                let base = d.extended_diagnostics.raw_diag_buffer().unwrap().as_ptr() as usize;
                let mut got = Vec::new();
                let mut cursor = 0usize;
                for b in d.extended_diagnostics.iter_diag_blocks() {
                    let (rb, start, len) = crate::eng_diag::from_lib_block(&b, base);
                    if let Some(start) = start {
                        // payload slices lie inside the buffer, after the previous block
                        if start < cursor || start + len > raw.len() {
                            return Err(("C17/block-outside-buffer-or-overlapping".to_string(), format!("block at {}..{} (previous blocks end at {}, buffer {} bytes)", start, start + len, cursor, raw.len())));
                        }
                        cursor = start + len;
                    }
                    got.push(rb);
                    if got.len() > 300 {
                        return Err(("C17/iteration-does-not-terminate".to_string(), "more than 300 blocks from a <= 244 byte buffer".to_string()));
                    }
                }
                if got != want_blocks {
                    return Err((format!("C17/blocks-differ/{}", crate::eng_diag::diff_class(&got, &want_blocks)), format!("buffer {}: blocks {:?} but the ext-diag format says {:?}", hex(raw), got, want_blocks)));
                }
            }
            // Debug formatting walks the blocks too
            let s = format!("{:?}", d);
            Ok(s.len())
        });
        match r {
            Err(p) => {
                let sig = if p.message.starts_with(profirust::verif::FUEL_PANIC) { "C17/iteration-does-not-terminate".to_string() } else { format!("C17/panic/{}", p.class()) };
                self.viol(rep, "C17", sig, format!("#{}: diagnostics reply {}: {}", addr, hex(pdu), p.message));
            }
            Ok(Err((sig, what))) => self.viol(rep, "C17", sig, format!("#{}: diagnostics reply {}: {}", addr, hex(&pdu[..pdu.len().min(40)]), what)),
            Ok(Ok(_)) => {
                rep.count("diag_replies_checked");
                if ext_flag && !ext.is_empty() {
                    rep.count("diag_replies_with_ext_diag_checked");
                }
                self.mon[i].diag_checked += 1;
            }
        }
        self.mon[i].ext_shadow = want_ext;
    }

    pub fn user_action(&mut self, id: u32, rng: &mut Rng) {
        let n = self.cfg.periphs.len();
        if n == 0 {
            return;
        }
        let i = (id as usize / 4) % n;
        match id % 4 {
            0 | 1 => self.write_outputs(i, rng),
            2 => {
                let h = self.handles[i];
                self.dp().get_mut(h).request_diagnostics();
            }
            _ => {
                // read-only API calls
                let h = self.handles[i];
                let p = self.dp().get_mut(h);
                let _ = (p.is_live(), p.is_running(), p.pi_i().len(), p.last_diagnostics().map(|d| format!("{:?}", d)));
                let _ = p.pi_both();
            }
        }
    }

    fn after_master_poll(&mut self, rep: &mut Report) {
        let now = self.world.now;
        let n = self.cfg.periphs.len();
        // gather what this poll did
        let events = self.world.stations[0].apps.dp.inner.take_last_events();
        let taps: Vec<TapEv> = self.world.stations[0].apps.dp.log.drain(..).collect();
        let frames: Vec<(Vec<u8>, Option<RTel>)> = {
            let bus = self.world.bus.borrow();
            let v = bus.trace[self.trace_idx..]
                .iter()
                .filter(|f| f.sender == self.master_port)
                .map(|f| (f.bytes.clone(), f.decoded.clone()))
                .collect();
            self.trace_idx = bus.trace.len();
            v
        };
        let mut delivered: Vec<(u8, RTel)> = Vec::new();
        let mut timeouts: Vec<u8> = Vec::new();
        for t in &taps {
            match t {
                TapEv::Reply { addr, tel, .. } => delivered.push((*addr, tel.clone())),
                TapEv::Timeout { addr, .. } => timeouts.push(*addr),
                TapEv::Ask { .. } => rep.count("dp_master_asked"),
            }
        }
        // ---------------- replies delivered in this poll (before the requests of this poll) -------
        let mut dx_update: Vec<Option<Vec<u8>>> = vec![None; n]; // justified image update
        let mut dx_event_expected: Vec<bool> = vec![false; n];
        for (addr, tel) in &delivered {
            rep.count("replies_delivered_to_dp_master");
            let Some(i) = self.per_index(*addr) else {
                self.viol(rep, "C14", "C14/reply-for-unknown-peripheral".into(), format!("reply delivered for #{} which is not configured", addr));
                continue;
            };
            let kind = self.mon[i].last_req_kind;
            let in_len = self.cfg.periphs[i].in_len;
            // acceptability by the weakest reading of the DP rules
            // a data reply must come from the addressed peripheral and be addressed to the master
            let right_endpoints = match tel {
                RTel::Data { da, sa, .. } => *sa == *addr && *da == self.cfg.master,
                _ => true,
            };
            let accepted = right_endpoints
                && match (kind, tel) {
                    (Some("slave-diag"), RTel::Data { dsap: Some(62), ssap: Some(60), fc, pdu, .. }) => fc.is_resp() && pdu.len() >= 6,
                    (Some("set-prm"), RTel::Sc) | (Some("chk-cfg"), RTel::Sc) => true,
                    (Some("data-exchange"), RTel::Sc) => in_len == 0,
                    (Some("data-exchange"), RTel::Data { fc: RFc::Resp { status, .. }, pdu, .. }) => matches!(status, 0 | 8 | 10) && pdu.len() == in_len,
                    _ => false,
                };
            if !right_endpoints {
                // the FDL promises the application only replies from the addressed station (C15);
                // for the DP monitors such a reply is simply not acceptable
                rep.count("replies_delivered_with_foreign_endpoints");
            }
            if accepted && kind == Some("slave-diag") {
                if let RTel::Data { pdu, .. } = tel {
                    let pdu = pdu.clone();
                    self.check_diag(rep, i, &pdu);
                }
            }
            self.mon[i].reply_since_last_req = Some(accepted || self.mon[i].reply_since_last_req == Some(true));
            self.mon[i].unanswered_run = 0;
            if accepted {
                self.mon[i].tx_since_accepted = 0;
            }
            rep.count(if accepted { "replies_acceptable" } else { "replies_rejectable" });
            // C03 stage machine (master's point of view)
            let m = &mut self.mon[i];
            match (kind, tel) {
                (Some("slave-diag"), RTel::Data { dsap: Some(62), ssap: Some(60), fc, pdu, .. }) if fc.is_resp() && pdu.len() >= 6 => {
                    let s1 = pdu[0];
                    let s2 = pdu[1];
                    let prm_req = s2 & 0x01 != 0;
                    let ready = s1 & 0x02 == 0 && s1 & 0x04 == 0 && s1 & 0x40 == 0 && !prm_req;
                    if m.stage == 0 {
                        m.stage = 1;
                    } else if m.stage == 3 && ready {
                        m.stage = 4;
                    } else if (m.stage == 3 || m.stage == 4) && prm_req {
                        m.stage = 1;
                    }
                }
                (Some("set-prm"), RTel::Sc) if m.stage >= 1 => m.stage = 2,
                (Some("chk-cfg"), RTel::Sc) if m.stage >= 2 => m.stage = 3,
                _ => {}
            }
            // C04: a well-formed Data_Exchange reply justifies an image update
            if kind == Some("data-exchange") && self.mon[i].awaiting_dx && accepted {
                dx_event_expected[i] = true;
                if let RTel::Data { pdu, .. } = tel {
                    dx_update[i] = Some(pdu.clone());
                } else {
                    dx_update[i] = Some(vec![]);
                }
            }
            self.mon[i].awaiting_dx = false;
        }
        for a in &timeouts {
            if let Some(i) = self.per_index(*a) {
                self.mon[i].awaiting_dx = false;
            }
            rep.count("timeouts_delivered_to_dp_master");
        }
        // ---------------- events ----------------------------------------------------------------
        let mut event_of: Vec<Option<PeripheralEvent>> = vec![None; n];
        if let Some((h, ev)) = events.peripheral {
            match self.handles.iter().position(|x| *x == h) {
                Some(i) => event_of[i] = Some(ev),
                None => self.viol(rep, "C14", "C14/event-for-unknown-handle".into(), format!("event {:?} for unknown handle {:?}", ev, h)),
            }
            rep.count(&format!("event_{:?}", ev));
        }
        for i in 0..n {
            let h = self.handles[i];
            let (live, running, pi_i, pi_q) = {
                let p = self.world.stations[0].apps.dp.inner.get_mut(h);
                (p.is_live(), p.is_running(), p.pi_i().to_vec(), p.pi_q().to_vec())
            };
            let addr = self.cfg.periphs[i].addr;
            let ev = event_of[i];
            // ---- C14: life-cycle automaton and state-change <=> event ----
            let m = &mut self.mon[i];
            let mut c14: Option<(String, String)> = None;
            match ev {
                Some(PeripheralEvent::Online) => {
                    if m.life != 0 {
                        c14 = Some(("C14/lifecycle/online-while-live".into(), format!("#{}: Online event while already live", addr)));
                    }
                    m.life = 1;
                    m.dx_since_configured = false;
                    m.offline_events_since_online = 0;
                }
                Some(PeripheralEvent::Configured) => {
                    if m.life == 0 {
                        c14 = Some(("C14/lifecycle/configured-before-online".into(), format!("#{}: Configured event without Online", addr)));
                    }
                    m.life = 2;
                }
                Some(PeripheralEvent::DataExchanged) => {
                    if m.life != 2 {
                        c14 = Some(("C14/lifecycle/data-exchanged-before-configured".into(), format!("#{}: DataExchanged event before Configured", addr)));
                    }
                    m.dx_since_configured = true;
                }
                Some(PeripheralEvent::Diagnostics) => {
                    if m.life == 0 {
                        c14 = Some(("C14/lifecycle/diagnostics-while-down".into(), format!("#{}: Diagnostics event while not live", addr)));
                    }
                }
                Some(PeripheralEvent::Offline) => {
                    if m.life == 0 {
                        c14 = Some(("C14/lifecycle/offline-while-not-live".into(), format!("#{}: Offline event although the peripheral was not live", addr)));
                    }
                    m.life = 0;
                    m.offline_events_since_online += 1;
                }
                Some(PeripheralEvent::ConfigError) | Some(PeripheralEvent::ParameterError) => {
                    if m.life == 0 {
                        c14 = Some(("C14/lifecycle/error-while-not-live".into(), format!("#{}: {:?} event although the peripheral was not live", addr, ev)));
                    }
                    m.life = 0;
                }
                None => {}
            }
            if c14.is_none() && live != (m.life != 0) {
                c14 = Some((
                    format!("C14/state-vs-events/is-live-{}", live),
                    format!("#{}: is_live() = {} but the events say {} (event in this poll: {:?})", addr, live, if m.life != 0 { "live" } else { "not live" }, ev),
                ));
                // resynchronise to avoid a cascade
                m.life = if live { 1 } else { 0 };
            }
            if c14.is_none() && running && !(m.life == 2 && m.dx_since_configured) {
                c14 = Some(("C14/state-vs-events/is-running".into(), format!("#{}: is_running() although no DataExchanged event followed the last Configured", addr)));
                m.life = 2;
                m.dx_since_configured = true;
            }
            m.was_live = live;
            if let Some((sig, what)) = c14 {
                self.viol(rep, "C14", sig, what);
            }
            // ---- C03: stage resets by events ----
            match ev {
                Some(PeripheralEvent::Offline) | Some(PeripheralEvent::ConfigError) | Some(PeripheralEvent::ParameterError) => self.mon[i].stage = 0,
                _ => {}
            }
            // ---- C08 R4 bookkeeping ----
            match ev {
                Some(PeripheralEvent::Offline) => {
                    // an Offline event needs 1 + max_retry_limit transmissions without an acceptable reply
                    let need = 1 + self.cfg.retry_limit as u32;
                    if self.mon[i].tx_since_accepted < need {
                        let n = self.mon[i].tx_since_accepted;
                        self.viol(rep, "C08", "C08/R4/offline-although-answered".into(), format!("#{} declared offline after only {} transmission(s) since its last acceptable reply (max_retry_limit {})", addr, n, self.cfg.retry_limit));
                    } else {
                        rep.count("C08_R4_offline_events_justified");
                    }
                    if self.mon[i].offline_events_since_online > 1 {
                        self.viol(rep, "C08", "C08/R4/second-offline-event".into(), format!("#{}: a second Offline event without an Online in between", addr));
                    }
                    self.mon[i].offline_probing = true;
                    self.mon[i].need_first = true;
                    self.mon[i].last_probe_cycle = None;
                }
                Some(PeripheralEvent::Online) => self.mon[i].offline_probing = false,
                Some(PeripheralEvent::ConfigError) | Some(PeripheralEvent::ParameterError) => {
                    // not live any more: probed with diagnostics requests like an offline peripheral
                    self.mon[i].offline_probing = true;
                    self.mon[i].last_probe_cycle = None;
                }
                _ => {}
            }
            // ---- C04: images ----
            let expected_dx = dx_event_expected[i];
            let got_dx = ev == Some(PeripheralEvent::DataExchanged);
            if got_dx {
                self.dx_events += 1;
            }
            if expected_dx != got_dx {
                let sig = if got_dx { "C04/dataexchanged-without-valid-reply" } else { "C04/valid-reply-without-dataexchanged" };
                self.viol(
                    rep,
                    "C04",
                    sig.into(),
                    format!("#{}: DataExchanged event = {}, well-formed Data_Exchange reply of the configured length delivered in this poll = {} (delivered: {:?})", addr, got_dx, expected_dx, delivered.iter().map(|(a, t)| format!("#{} {}", a, t.short())).collect::<Vec<_>>()),
                );
            }
            if pi_q != self.mon[i].pi_q_shadow {
                self.viol(rep, "C04", "C04/output-image-modified-by-master".into(), format!("#{}: pi_q changed without a user write", addr));
                self.mon[i].pi_q_shadow = pi_q.clone();
            }
            match &dx_update[i] {
                Some(pdu) => {
                    if pi_i != *pdu {
                        self.viol(rep, "C04", "C04/input-image-not-equal-reply".into(), format!("#{}: reply payload {} but pi_i = {}", addr, hex(&pdu[..pdu.len().min(16)]), hex(&pi_i[..pi_i.len().min(16)])));
                    } else {
                        rep.count("image_updates_justified");
                    }
                }
                None => {
                    if pi_i != self.mon[i].pi_i_shadow {
                        let sig = if delivered.is_empty() { "C04/input-image-changed/no-reply" } else { "C04/input-image-changed/by-unacceptable-reply" };
                        self.viol(
                            rep,
                            "C04",
                            sig.into(),
                            format!("#{}: pi_i changed {} -> {} although no well-formed reply from it was delivered (delivered in this poll: {:?})", addr, hex(&self.mon[i].pi_i_shadow[..pi_i.len().min(16)]), hex(&pi_i[..pi_i.len().min(16)]), delivered.iter().map(|(a, t)| format!("#{} {}", a, t.short())).collect::<Vec<_>>()),
                        );
                    }
                }
            }
            self.mon[i].pi_i_shadow = pi_i;
        }
        // ---------------- requests sent in this poll --------------------------------------------
        for (raw, tel) in &frames {
            let Some(tel) = tel else {
                self.viol(rep, "C03", "C03/undecodable-request".into(), format!("master sent {}", hex(raw)));
                continue;
            };
            let kind = kind_of(tel);
            rep.count(&format!("req_{}", kind));
            let RTel::Data { da, sa, fc, pdu, dsap, ssap } = tel else { continue };
            if matches!(kind, "fdl-status" | "global-control" | "not-a-request") {
                continue;
            }
            let Some(i) = self.per_index(*da) else {
                self.viol(rep, "C14", "C14/request-to-unconfigured-address".into(), format!("DP request {} to #{}", kind, da));
                continue;
            };
            let pc = self.cfg.periphs[i].clone();
            let RFc::Req { fcv, fcb, .. } = *fc else { continue };
            // ---- C03 ----
            match kind {
                "data-exchange" => {
                    rep.count("dx_requests_gated");
                    if self.mon[i].stage != 4 {
                        let st = self.mon[i].stage;
                        self.viol(
                            rep,
                            "C03",
                            format!("C03/dx-before-bringup-complete/stage-{}", st),
                            format!("Data_Exchange request to #{} at {}us although its bring-up is only at stage {} (0 nothing, 1 diag answered, 2 Set_Prm acked, 3 Chk_Cfg acked, 4 readiness confirmed)", da, now, st),
                        );
                    }
                }
                "set-prm" => {
                    let params = self.world.stations[0].fdl.parameters().clone();
                    let mut want = vec![0u8; 7];
                    want[0] = 0x80 | if pc.sync { 0x20 } else { 0 } | if pc.freeze { 0x10 } else { 0 };
                    if let Some((f1, f2)) = params.watchdog_factors {
                        want[0] |= 0x08;
                        want[1] = f1;
                        want[2] = f2;
                        // the factors must represent the requested time-out (10 ms granularity)
                        if let Some(ms) = self.cfg.watchdog_ms {
                            let got = f1 as u64 * f2 as u64 * 10;
                            if f1 == 0 || f2 == 0 || got < ms / 10 * 10 {
                                self.viol(rep, "C03", "C03/set-prm/watchdog-factors".into(), format!("watchdog {} ms configured, factors {}x{}x10ms = {} ms", ms, f1, f2, got));
                            }
                            rep.max("watchdog_overshoot_ratio", got as f64 / ms as f64);
                        }
                    }
                    want[3] = self.cfg.min_tsdr;
                    want[4] = (pc.ident >> 8) as u8;
                    want[5] = pc.ident as u8;
                    want[6] = pc.groups;
                    want.extend_from_slice(&pc.user_prm);
                    if *pdu != want || *sa != self.cfg.master || fc.req_code() != Some(rc::REQ_SRD_LOW) {
                        let pos = (0..want.len().max(pdu.len())).find(|k| want.get(*k) != pdu.get(*k)).unwrap_or(0);
                        let field = match pos {
                            0 => "station-status",
                            1 | 2 => "watchdog-factors",
                            3 => "min-tsdr",
                            4 | 5 => "ident",
                            6 => "groups",
                            _ => "user-prm",
                        };
                        self.viol(rep, "C03", format!("C03/set-prm/content/{}", field), format!("Set_Prm to #{} carries {} but the configuration says {}", da, hex(&pdu[..pdu.len().min(24)]), hex(&want[..want.len().min(24)])));
                    } else {
                        rep.count("set_prm_content_checked");
                    }
                }
                "chk-cfg" => {
                    if *pdu != pc.cfg || fc.req_code() != Some(rc::REQ_SRD_LOW) {
                        self.viol(rep, "C03", "C03/chk-cfg/content".into(), format!("Chk_Cfg to #{} carries {} but the configuration is {}", da, hex(&pdu[..pdu.len().min(24)]), hex(&pc.cfg[..pc.cfg.len().min(24)])));
                    } else {
                        rep.count("chk_cfg_content_checked");
                    }
                }
                "slave-diag" => {
                    if !pdu.is_empty() {
                        self.viol(rep, "C03", "C03/slave-diag/content".into(), "Slave_Diag request with payload".into());
                    }
                }
                _ => {
                    self.viol(rep, "C03", "C03/unknown-service".into(), format!("request {} with SAPs {:?}/{:?}", tel.short(), dsap, ssap));
                }
            }
            // ---- C04 (a): the request carries the current output image ----
            if kind == "data-exchange" {
                if *pdu != self.mon[i].pi_q_shadow {
                    self.viol(rep, "C04", "C04/request-not-equal-output-image".into(), format!("Data_Exchange request to #{} carries {} but pi_q = {}", da, hex(&pdu[..pdu.len().min(16)]), hex(&self.mon[i].pi_q_shadow[..pdu.len().min(16).min(self.mon[i].pi_q_shadow.len())])));
                } else {
                    rep.count("dx_requests_equal_output_image");
                }
                self.mon[i].awaiting_dx = true;
            } else {
                self.mon[i].awaiting_dx = false;
            }
            // ---- C08 ----
            rep.count("fcb_requests_checked");
            let limit = self.cfg.retry_limit as u32;
            let prev = self.mon[i].last_req.clone();
            let replied = self.mon[i].reply_since_last_req;
            if self.mon[i].need_first {
                if fcv || !fcb {
                    self.viol(rep, "C08", "C08/R1/first-request-not-fcv0-fcb1".into(), format!("first request to #{} after start-up / Offline has FCV={} FCB={}", da, fcv as u8, fcb as u8));
                } else {
                    rep.count("C08_R1_checked");
                }
                self.mon[i].need_first = false;
            } else if let Some((pfcv, pfcb, pkind, praw)) = &prev {
                let same_bits = *pfcv == fcv && *pfcb == fcb;
                if same_bits {
                    // must be a retransmission: same service, identical frame, no accepted reply in between
                    if *pkind != kind {
                        self.viol(rep, "C08", format!("C08/R2/same-fcb-different-service/{}-then-{}", pkind, kind), format!("two consecutive requests to #{} carry FCV={} FCB={} but are {} and {}", da, fcv as u8, fcb as u8, pkind, kind));
                    } else if replied == Some(true) {
                        self.viol(rep, "C08", format!("C08/R3/no-toggle-after-accepted-reply/{}", kind), format!("request {} to #{} repeats FCB={} although an acceptable reply to the previous one was delivered", kind, da, fcb as u8));
                    } else {
                        if praw != raw && kind != "data-exchange" {
                            self.viol(rep, "C08", "C08/R2/retransmission-differs".into(), format!("retransmission to #{} differs from the original", da));
                        }
                        rep.count("C08_R2_retransmissions_checked");
                    }
                } else {
                    if replied == Some(true) {
                        // toggled after an accepted reply: must be FCV=1 with the opposite FCB
                        if !fcv || fcb == *pfcb {
                            self.viol(rep, "C08", "C08/R3/toggle-wrong".into(), format!("request to #{} after an accepted reply has FCV={} FCB={} (previous FCB={})", da, fcv as u8, fcb as u8, *pfcb as u8));
                        } else {
                            rep.count("C08_R3_toggles_checked");
                        }
                    } else if !fcv && fcb {
                        // a reset to "first" without an Offline event
                        self.viol(rep, "C08", "C08/R1/unexpected-first".into(), format!("request to #{} restarts the FCB sequence without an Offline event", da));
                    } else {
                        rep.count("C08_toggle_without_accepted_reply_allowed");
                    }
                }
            }
            // R4: retry limit / offline probing
            if self.mon[i].offline_probing {
                if kind != "slave-diag" {
                    self.viol(rep, "C08", format!("C08/R4/offline-peripheral-gets-{}", kind), format!("#{} was declared offline but receives a {} request", da, kind));
                }
                if let Some(c) = self.mon[i].last_probe_cycle {
                    if self.cycles < c + 1 && replied.is_none() {
                        self.viol(rep, "C08", "C08/R4/offline-probe-retried".into(), format!("offline probe of #{} repeated within the same DP cycle", da));
                    }
                }
                self.mon[i].last_probe_cycle = Some(self.cycles);
                rep.count("C08_R4_offline_probes_checked");
            } else {
                self.mon[i].unanswered_run += 1;
                rep.max("max_unanswered_run_over_limit", self.mon[i].unanswered_run as f64 / (1 + limit) as f64);
                if self.mon[i].unanswered_run > 1 + limit {
                    self.viol(rep, "C08", "C08/R4/too-many-transmissions".into(), format!("{} consecutive transmissions to #{} without a delivered reply (max_retry_limit {})", self.mon[i].unanswered_run, da, limit));
                    self.mon[i].unanswered_run = 0;
                }
            }
            self.mon[i].tx_since_accepted += 1;
            self.mon[i].last_req = Some((fcv, fcb, kind, raw.clone()));
            self.mon[i].reply_since_last_req = None;
            self.mon[i].last_req_kind = Some(kind);
            // ---- C14: turn order ----
            let is_retx = prev.as_ref().map(|(pfcv, pfcb, pkind, _)| *pfcv == fcv && *pfcb == fcb && *pkind == kind).unwrap_or(false) && self.last_dp_req_idx == Some(i) && replied.is_none();
            if !is_retx {
                // a new turn of peripheral i in this cycle
                if let Some(last) = self.last_dp_req_idx {
                    let pos_last = self.slot_order.iter().position(|x| *x == last).unwrap();
                    let pos_i = self.slot_order.iter().position(|x| *x == i).unwrap();
                    if self.mon[i].requests_this_cycle > 0 {
                        self.viol(rep, "C14", "C14/turn/second-turn-in-one-cycle".into(), format!("#{} got a second turn before 'cycle completed' was reported (last requests of this cycle to: {:?})", da, &self.cycle_addr_seq[self.cycle_addr_seq.len().saturating_sub(16)..]));
                    } else if pos_i <= pos_last && !self.cycle_addr_seq.is_empty() {
                        self.viol(rep, "C14", "C14/turn/out-of-slot-order".into(), format!("request to #{} after #{} in the same cycle (slot order violated; cycle so far (last 16) {:?})", da, self.cfg.periphs[last].addr, &self.cycle_addr_seq[self.cycle_addr_seq.len().saturating_sub(16)..]));
                    }
                }
                self.mon[i].requests_this_cycle += 1;
                if self.cycle_addr_seq.len() < 4096 {
                    self.cycle_addr_seq.push(*da);
                }
                rep.count("C14_turns_checked");
            }
            self.last_dp_req_idx = Some(i);
        }
        // ---------------- cycle completed ---------------------------------------------------------
        if events.cycle_completed {
            self.cycles += 1;
            self.last_cycle_completed_at = now;
            rep.count("dp_cycles_completed");
            for i in 0..n {
                if self.mon[i].requests_this_cycle == 0 {
                    self.mon[i].cycles_without_request += 1;
                    if self.mon[i].cycles_without_request > 2 {
                        let addr = self.cfg.periphs[i].addr;
                        self.viol(rep, "C14", "C14/turn/peripheral-starved".into(), format!("#{} got no request in {} consecutive DP cycles", addr, self.mon[i].cycles_without_request));
                        self.mon[i].cycles_without_request = 0;
                    }
                } else {
                    self.mon[i].cycles_without_request = 0;
                }
                self.mon[i].requests_this_cycle = 0;
            }
            self.cycle_addr_seq.clear();
            self.last_dp_req_idx = None;
        }
    }

    /// All peripherals that should run are running?
    pub fn all_running(&mut self) -> bool {
        let hs = self.handles.clone();
        hs.iter().all(|h| self.dp().get_mut(*h).is_running())
    }

    pub fn joint_state_fp(&mut self) -> u64 {
        let mut fp = Fp::new();
        let hs = self.handles.clone();
        for (i, h) in hs.iter().enumerate() {
            let p = self.dp().get_mut(*h).verif_probe();
            fp.s(p.state).u(p.retry_count as u64).u(p.fcb as u64).u(p.diag_needed as u64);
            let c = self.slaves[i].core.borrow();
            fp.u(c.state as u64).u(c.last_fcb.map(|b| b as u64 + 1).unwrap_or(0));
        }
        fp.get()
    }
}

pub fn make_bufs(cfg: &DpCfg) -> Vec<(Vec<u8>, Vec<u8>)> {
    cfg.periphs.iter().map(|p| (p.user_prm.clone(), p.cfg.clone())).collect()
}

// ------------------------------------------------------------------------------------------------
// Workloads
// ------------------------------------------------------------------------------------------------

pub const HOSTILE: [Fault; 28] = [
    Fault::PrmReqOnly,
    Fault::FlagOnly(0x40),
    Fault::FlagOnly(0x04),
    Fault::FlagOnly(0x02),
    Fault::RequestLost,
    Fault::ReplyLost,
    Fault::ReplyCorrupted,
    Fault::PowerCycle,
    Fault::WrongDsap,
    Fault::WrongSsap,
    Fault::ShortPdu,
    Fault::Status(0),
    Fault::Status(1),
    Fault::Status(2),
    Fault::Status(3),
    Fault::Status(8),
    Fault::Status(9),
    Fault::Status(10),
    Fault::Status(12),
    Fault::Status(13),
    Fault::DataInsteadOfSc,
    Fault::ScInsteadOfData,
    Fault::Length(-1),
    Fault::Length(1),
    Fault::ForeignSource,
    Fault::ForeignDestination,
    Fault::RequestInsteadOfResponse,
    Fault::TokenInstead,
];

pub const BENIGN: [Fault; 7] = [Fault::RequestLost, Fault::ReplyLost, Fault::ReplyCorrupted, Fault::PowerCycle, Fault::DiagPending, Fault::WatchdogExpiry, Fault::LateReply];

/// Random faulty history: `transactions` transactions per slave with `pct` % faults, user actions
/// at random instants, then (optionally) a fault-free continuation.
pub fn dp_random_case(rep: &mut Report, seed: u64, idx: u64, judge: &'static str, verbose: bool) {
    let mut rng = Rng::derive(seed, "dp", idx);
    let (nmin, nmax) = if judge == "C14" { (0, 4) } else { (1, 3) };
    let cfg = gen_dp_cfg(&mut rng, nmin, nmax, judge == "C04");
    rep.evaluations += 1;
    rep.cur_case = format!("dp {} seed {}", idx, seed);
    if verbose {
        eprintln!("{}", cfg.json().render());
    }
    let bufs = make_bufs(&cfg);
    let mut run = DpRun::build(&cfg, &bufs, rng.next_u64(), judge);
    let pct = *rng.pick(&[0u64, 5, 15, 40]);
    let hostile = judge != "C07";
    for s in &run.slaves {
        *s.random_pct.borrow_mut() = pct;
    }
    // the alphabets live in the devices; set them through a rebuild of the device list is not
    // possible, so the random alphabet is passed via the script instead: pre-generate a long script
    let n_txn = 300 + rng.usize(1500);
    for s in &run.slaves {
        let mut sc = Vec::with_capacity(n_txn);
        for _ in 0..n_txn {
            if rng.below(100) < pct {
                sc.push(if hostile { rng.pick(&HOSTILE).clone() } else { rng.pick(&BENIGN).clone() });
            } else {
                sc.push(Fault::None);
            }
        }
        *s.script.borrow_mut() = sc;
        *s.random_pct.borrow_mut() = 0;
    }
    // sometimes all slaves misbehave in the same way at the same time (a common cause: wrong wiring,
    // a firmware quirk of one product family): the same fault on the same transactions of every slave
    if rng.chance(1, 3) {
        let sticky = if hostile {
            rng.pick(&[Fault::DataInsteadOfSc, Fault::DataInsteadOfSc, Fault::ReplyLost, Fault::RequestLost, Fault::WrongDsap, Fault::ShortPdu, Fault::ScInsteadOfData, Fault::Status(3), Fault::ReplyCorrupted]).clone()
        } else {
            rng.pick(&BENIGN).clone()
        };
        let from = *rng.pick(&[0usize, 1, 1, 2, 2, 3, 4, 8, 20]);
        let len = 2 + rng.usize(3 * (cfg.retry_limit as usize + 2));
        for s in &run.slaves {
            let mut sc = s.script.borrow_mut();
            for k in from..(from + len).min(sc.len()) {
                sc[k] = sticky.clone();
            }
        }
        rep.count("dp_common_mode_fault_histories");
    }
    // user actions
    let tslot = cfg.tslot();
    let horizon = tslot * 40 * n_txn as i64;
    let n_actions = rng.usize(n_txn / 2 + 1);
    for _ in 0..n_actions {
        run.world.schedule_action(rng.below(horizon as u64) as Us, rng.below(64) as u32);
    }
    // "cable cut": all slaves vanish in the same instant for a while (several peripherals then
    // exhaust their retries in the same DP cycle), then come back after a power cycle
    let cut: Option<(u64, u64)> = if rng.chance(1, 4) { Some((5 + rng.below(60), 1 + rng.below(40))) } else { None };
    let mut cut_state = 0u8;
    let mut steps = 0u64;
    let mut fault_phase_done_at: Option<Us> = None;
    let mut cycles_at_done = 0u64;
    let mut reached_dx = false;
    let mut joint = std::collections::BTreeSet::new();
    loop {
        if !run.step(rep, &mut rng) {
            break;
        }
        steps += 1;
        if let Some((at, len)) = cut {
            if cut_state == 0 && run.cycles >= at {
                for (i, sl) in run.slaves.iter().enumerate() {
                    if run.cfg.periphs[i].present {
                        sl.core.borrow_mut().present = false;
                    }
                }
                cut_state = 1;
                rep.count("dp_cable_cuts");
            } else if cut_state == 1 && run.cycles >= at + len {
                for (i, sl) in run.slaves.iter().enumerate() {
                    if run.cfg.periphs[i].present {
                        let mut c = sl.core.borrow_mut();
                        c.present = true;
                        c.power_cycle();
                    }
                }
                cut_state = 2;
            }
        }
        if run.dx_events > 0 {
            reached_dx = true;
        }
        if steps % 64 == 0 {
            joint.insert(run.joint_state_fp());
        }
        let scripts_done = run.slaves.iter().all(|s| s.script.borrow().is_empty() || !s.core.borrow().present) && cut_state != 1;
        if scripts_done && fault_phase_done_at.is_none() {
            fault_phase_done_at = Some(run.world.now);
            cycles_at_done = run.cycles;
        }
        if let Some(_t) = fault_phase_done_at {
            // fault-free continuation: 40 DP cycles
            if run.cycles >= cycles_at_done + 40 || run.cfg.periphs.is_empty() && steps > 200_000 {
                break;
            }
        }
        if steps > 30_000_000 {
            rep.inconclusive("dp run exceeded the step cap");
            break;
        }
    }
    profirust::verif::set_fuel(u64::MAX);
    if verbose {
        dump_dp_trace(&run, 200);
    }
    rep.add("dp_polls", run.world.polls);
    rep.add("distinct_joint_states_sampled", joint.len() as u64);
    for s in &run.slaves {
        let c = s.core.borrow();
        rep.add("slave_transactions", c.transactions);
        rep.add("slave_repeated_stored_response", c.repeated);
        rep.add("slave_power_cycles", c.power_cycles);
    }
    for b in run.world.breaches() {
        run.viol(rep, "C05", "C05/phy-contract".into(), b);
    }
    if reached_dx && (pct > 0 || n_actions > 0) {
        let mut fp = Fp::new();
        fp.u(idx).u(pct).u(cfg.periphs.len() as u64).u(cfg.retry_limit as u64);
        for j in &joint {
            fp.u(*j);
        }
        rep.nontrivial(fp.get());
    }
    if idx % 128 < 2 {
        rep.sample(J::obj(vec![
            ("kind", J::s("DP master + reference slaves, random faulty history")),
            ("config", cfg.json()),
            ("fault_pct", J::U(pct)),
            ("transactions_per_slave", J::U(n_txn as u64)),
            ("user_actions", J::U(n_actions as u64)),
            ("dp_cycles", J::U(run.cycles)),
        ]));
    }
}

pub fn dump_dp_trace(run: &DpRun, last: usize) {
    let bus = run.world.bus.borrow();
    let n = bus.trace.len();
    let from: Option<i64> = std::env::var("PBMON_DUMP_FROM").ok().and_then(|s| s.parse().ok());
    let skip = match from {
        Some(t) => bus.trace.iter().position(|f| f.start >= t).unwrap_or(0),
        None => n.saturating_sub(last),
    };
    for f in bus.trace.iter().skip(skip).take(last) {
        eprintln!(
            "  {:>10}..{:>10} port{} {}{}",
            f.start,
            f.end,
            f.sender,
            f.decoded.as_ref().map(|t| t.short()).unwrap_or_else(|| format!("?? {}", hex(&f.bytes))),
            if f.collided { "  COLLIDED" } else { "" }
        );
    }
}

/// Bounded-systematic part: every sequence of `depth` hostile faults, started after 0..9 fault-free
/// transactions (every bring-up stage and data exchange), one peripheral, then 12 more DP cycles.
pub fn dp_systematic_case(rep: &mut Report, seed: u64, prefix: usize, depth: usize, code: u64, judge: &'static str, verbose: bool) {
    let mut rng = Rng::derive(seed, "dpx", (prefix as u64) << 48 | code);
    let mut cfg = gen_dp_cfg(&mut rng, 1, 1, judge == "C04");
    cfg.periphs[0].present = true;
    rep.evaluations += 1;
    let mut script: Vec<Fault> = vec![Fault::None; prefix];
    let mut c = code;
    for _ in 0..depth {
        script.push(HOSTILE[(c % HOSTILE.len() as u64) as usize].clone());
        c /= HOSTILE.len() as u64;
    }
    if verbose {
        eprintln!("{}\n{:?}", cfg.json().render(), script);
    }
    let bufs = make_bufs(&cfg);
    let mut run = DpRun::build(&cfg, &bufs, rng.next_u64(), judge);
    *run.slaves[0].script.borrow_mut() = script;
    // a few user calls
    for _ in 0..rng.usize(4) {
        let at = rng.below((cfg.tslot() * 40 * (prefix as i64 + depth as i64 + 4)) as u64) as Us;
        run.world.schedule_action(at, rng.below(64) as u32);
    }
    let mut steps = 0u64;
    let mut done_at: Option<u64> = None;
    loop {
        if !run.step(rep, &mut rng) {
            break;
        }
        steps += 1;
        if done_at.is_none() && run.slaves[0].script.borrow().is_empty() {
            done_at = Some(run.cycles);
        }
        if let Some(d) = done_at {
            if run.cycles >= d + 12 {
                break;
            }
        }
        if steps > 3_000_000 {
            break;
        }
    }
    if verbose {
        dump_dp_trace(&run, 120);
    }
    rep.count("dp_systematic_histories");
    rep.nontrivial_enum();
}

fn run_dp_prop(ctx: &mut Ctx, prop: &'static str, q: u64, t: u64, m: u64) {
    let seed = ctx.seed;
    if let Some(only) = ctx.only.clone() {
        let s = only.iter().position(|x| x == "seed").and_then(|k| only.get(k + 1)).and_then(|x| x.parse().ok()).unwrap_or(seed);
        if only[0] == "dp" {
            let idx: u64 = only[1].parse().unwrap();
            dp_random_case(&mut ctx.rep, s, idx, prop, true);
        }
        if only[0] == "dpx" {
            dp_systematic_case(&mut ctx.rep, s, only[1].parse().unwrap(), only[2].parse().unwrap(), only[3].parse().unwrap(), prop, true);
        }
        return;
    }
    // bounded-systematic: all hostile fault sequences of depth d from every stage
    let depth = match ctx.tier {
        Tier::Quick => 2usize,
        Tier::Thorough => 3,
        Tier::Miri => 1,
    };
    let nseq = (HOSTILE.len() as u64).pow(depth as u32);
    let mut idx = 0u64;
    for prefix in [0usize, 1, 2, 3, 4, 5, 9] {
        for code in 0..nseq {
            idx += 1;
            if !ctx.mine(idx) || ctx.over_budget() {
                continue;
            }
            ctx.rep.cur_case = format!("dpx {} {} {} seed {}", prefix, depth, code, seed);
            dp_systematic_case(&mut ctx.rep, seed, prefix, depth, code, prop, false);
        }
    }
    let n = ctx.n(q, t, m);
    for k in 0..n {
        dp_random_case(&mut ctx.rep, seed, ctx.shard + k * ctx.nshards, prop, false);
    }
    let _ = Tier::Quick;
}

pub fn c03(ctx: &mut Ctx) {
    run_dp_prop(ctx, "C03", 2000, 200_000, 2);
}
pub fn c04(ctx: &mut Ctx) {
    run_dp_prop(ctx, "C04", 2000, 100_000, 2);
}
pub fn c08(ctx: &mut Ctx) {
    run_dp_prop(ctx, "C08", 2000, 200_000, 2);
}
pub fn c14(ctx: &mut Ctx) {
    run_dp_prop(ctx, "C14", 2000, 120_000, 2);
}
