//! Independent reference implementation of the PROFIBUS FDL frame format (IEC 61158-4 type 3 /
//! EN 50170-2), written from the frame layout, sharing no code with `profirust::fdl::telegram`.
//!
//! ```text
//! SD1  10 DA SA FC FCS 16                              fixed, no data
//! SD2  68 LE LEr 68 DA SA FC [DSAP] [SSAP] PDU FCS 16  LE = 3 + #SAPs + |PDU|
//! SD3  A2 DA SA FC d0..d7 FCS 16                       fixed, 8 data bytes (SAPs inside the 8)
//! SD4  DC DA SA                                        token
//! SC   E5                                              short confirmation
//! FCS = sum(DA .. last data byte) mod 256;  DA/SA bit 7 = address extension (DSAP/SSAP follows)
//! FC:  bit6=1 request: bit5 FCB, bit4 FCV, bits 7,3..0 service;  bit6=0 response: bits5..4 station
//!      type, bits 3..0 status
//! ```

pub const SD1: u8 = 0x10;
pub const SD2: u8 = 0x68;
pub const SD3: u8 = 0xA2;
pub const SD4: u8 = 0xDC;
pub const ED: u8 = 0x16;
pub const SC: u8 = 0xE5;

/// Request service codes that the stack knows (bit 7 and bits 3..0 of the FC byte).
pub const REQ_CODES: [u8; 12] = [0x80, 0, 3, 4, 5, 6, 7, 9, 12, 13, 14, 15];
/// Response status codes that the stack knows.
pub const RESP_STATUS: [u8; 9] = [0, 1, 2, 3, 8, 9, 10, 12, 13];

pub const REQ_SDN_LOW: u8 = 4;
pub const REQ_SDN_HIGH: u8 = 6;
pub const REQ_FDL_STATUS: u8 = 9;
pub const REQ_SRD_LOW: u8 = 12;
pub const REQ_SRD_HIGH: u8 = 13;

#[derive(Clone, Copy, Debug, PartialEq, Eq, Hash)]
pub enum RFc {
    Req { fcv: bool, fcb: bool, code: u8 },
    Resp { state: u8, status: u8 },
}

impl RFc {
    pub fn to_byte(self) -> u8 {
        match self {
            RFc::Req { fcv, fcb, code } => 0x40 | code | ((fcb as u8) << 5) | ((fcv as u8) << 4),
            RFc::Resp { state, status } => (state << 4) | status,
        }
    }
    /// Decode; `None` for codes the stack does not know.
    pub fn from_byte(b: u8) -> Option<RFc> {
        if b & 0x40 != 0 {
            let code = b & 0x8F;
            if !REQ_CODES.contains(&code) {
                return None;
            }
            Some(RFc::Req {
                fcv: b & 0x10 != 0,
                fcb: b & 0x20 != 0,
                code,
            })
        } else {
            let status = b & 0x0F;
            if !RESP_STATUS.contains(&status) {
                return None;
            }
            Some(RFc::Resp {
                state: (b >> 4) & 3,
                status,
            })
        }
    }
    pub fn is_req(self) -> bool {
        matches!(self, RFc::Req { .. })
    }
    pub fn is_resp(self) -> bool {
        matches!(self, RFc::Resp { .. })
    }
    pub fn req_code(self) -> Option<u8> {
        match self {
            RFc::Req { code, .. } => Some(code),
            _ => None,
        }
    }
    /// Does a request with this FC expect a reply?
    pub fn expects_reply(self) -> bool {
        match self {
            RFc::Req { code, .. } => !matches!(code, 0x80 | 0 | 4 | 6),
            _ => false,
        }
    }
}

#[derive(Clone, Debug, PartialEq, Eq, Hash)]
pub enum RTel {
    Token {
        da: u8,
        sa: u8,
    },
    Sc,
    Data {
        da: u8,
        sa: u8,
        dsap: Option<u8>,
        ssap: Option<u8>,
        fc: RFc,
        pdu: Vec<u8>,
    },
}

impl RTel {
    pub fn sa(&self) -> Option<u8> {
        match self {
            RTel::Token { sa, .. } => Some(*sa),
            RTel::Data { sa, .. } => Some(*sa),
            RTel::Sc => None,
        }
    }
    pub fn da(&self) -> Option<u8> {
        match self {
            RTel::Token { da, .. } => Some(*da),
            RTel::Data { da, .. } => Some(*da),
            RTel::Sc => None,
        }
    }
    pub fn is_token(&self) -> bool {
        matches!(self, RTel::Token { .. })
    }
    pub fn fc(&self) -> Option<RFc> {
        match self {
            RTel::Data { fc, .. } => Some(*fc),
            _ => None,
        }
    }
    pub fn is_request(&self) -> bool {
        matches!(self, RTel::Data { fc, .. } if fc.is_req())
    }
    pub fn is_response(&self) -> bool {
        matches!(self, RTel::Data { fc, .. } if fc.is_resp())
    }
    pub fn is_fdl_status_req(&self) -> bool {
        matches!(self, RTel::Data { fc: RFc::Req { code: REQ_FDL_STATUS, .. }, .. })
    }
    pub fn short(&self) -> String {
        match self {
            RTel::Token { da, sa } => format!("TOK {}->{}", sa, da),
            RTel::Sc => "SC".to_string(),
            RTel::Data {
                da,
                sa,
                dsap,
                ssap,
                fc,
                pdu,
            } => format!(
                "DATA {}->{} {:?}/{:?} fc={:02x} pdu[{}]={}",
                sa,
                da,
                dsap,
                ssap,
                fc.to_byte(),
                pdu.len(),
                crate::util::hex(&pdu[..pdu.len().min(12)])
            ),
        }
    }
}

/// Encode a telegram.  Returns `None` if it does not fit the frame format (LE > 249... the caller
/// decides what is legal; this only refuses LE > 255).
pub fn encode(t: &RTel) -> Option<Vec<u8>> {
    match t {
        RTel::Token { da, sa } => Some(vec![SD4, *da, *sa]),
        RTel::Sc => Some(vec![SC]),
        RTel::Data {
            da,
            sa,
            dsap,
            ssap,
            fc,
            pdu,
        } => {
            let le = 3 + dsap.is_some() as usize + ssap.is_some() as usize + pdu.len();
            if le > 255 {
                return None;
            }
            let mut body = Vec::with_capacity(le);
            body.push(*da | if dsap.is_some() { 0x80 } else { 0 });
            body.push(*sa | if ssap.is_some() { 0x80 } else { 0 });
            body.push(fc.to_byte());
            if let Some(d) = dsap {
                body.push(*d);
            }
            if let Some(s) = ssap {
                body.push(*s);
            }
            body.extend_from_slice(pdu);
            let fcs = body.iter().fold(0u8, |a, b| a.wrapping_add(*b));
            let mut out = Vec::with_capacity(le + 6);
            match le {
                3 => out.push(SD1),
                11 => out.push(SD3),
                _ => {
                    out.push(SD2);
                    out.push(le as u8);
                    out.push(le as u8);
                    out.push(SD2);
                }
            }
            out.extend_from_slice(&body);
            out.push(fcs);
            out.push(ED);
            Some(out)
        }
    }
}

#[derive(Clone, Debug, PartialEq, Eq)]
pub enum Dec {
    /// Input is a proper prefix of a possible frame: more data needed.
    NeedMore,
    /// Input is shorter than the minimal data-frame header (6 bytes) but can already be refuted
    /// (e.g. LE != LEr): both "need more" and "reject" are acceptable answers.
    NeedMoreOrReject,
    Reject,
    Accept(RTel, usize),
}

/// Number of bytes the frame announced by the header needs, if the header is complete and
/// self-consistent.
pub fn required_len(buf: &[u8]) -> Option<usize> {
    match buf.first()? {
        &SC => Some(1),
        &SD4 => Some(3),
        &SD1 => Some(6),
        &SD3 => Some(14),
        &SD2 => {
            if buf.len() >= 4 && buf[1] == buf[2] && buf[3] == SD2 && buf[1] >= 3 {
                Some(buf[1] as usize + 6)
            } else {
                None
            }
        }
        _ => None,
    }
}

/// Strict reference decoder.
pub fn decode(buf: &[u8]) -> Dec {
    if buf.is_empty() {
        return Dec::NeedMore;
    }
    match buf[0] {
        SC => Dec::Accept(RTel::Sc, 1),
        SD4 => {
            if buf.len() < 3 {
                Dec::NeedMore
            } else {
                Dec::Accept(
                    RTel::Token {
                        da: buf[1],
                        sa: buf[2],
                    },
                    3,
                )
            }
        }
        SD1 | SD3 => {
            let total = if buf[0] == SD1 { 6 } else { 14 };
            if buf.len() < total {
                return Dec::NeedMore;
            }
            decode_body(&buf[1..total - 2], buf[total - 2], buf[total - 1], total)
        }
        SD2 => {
            // header: 68 LE LEr 68
            let refutable = (buf.len() >= 3 && buf[1] != buf[2])
                || (buf.len() >= 2 && buf[1] < 3)
                || (buf.len() >= 4 && buf[3] != SD2);
            if buf.len() < 6 {
                return if refutable {
                    Dec::NeedMoreOrReject
                } else {
                    Dec::NeedMore
                };
            }
            if refutable {
                return Dec::Reject;
            }
            let le = buf[1] as usize;
            let total = le + 6;
            if buf.len() < total {
                return Dec::NeedMore;
            }
            decode_body(&buf[4..4 + le], buf[4 + le], buf[5 + le], total)
        }
        _ => Dec::Reject,
    }
}

fn decode_body(body: &[u8], fcs: u8, ed: u8, total: usize) -> Dec {
    // body = DA SA FC [DSAP] [SSAP] PDU
    let sum = body.iter().fold(0u8, |a, b| a.wrapping_add(*b));
    if sum != fcs || ed != ED {
        return Dec::Reject;
    }
    let da = body[0] & 0x7f;
    let sa = body[1] & 0x7f;
    let fc = match RFc::from_byte(body[2]) {
        Some(fc) => fc,
        None => return Dec::Reject,
    };
    let mut rest = &body[3..];
    let dsap = if body[0] & 0x80 != 0 {
        if rest.is_empty() {
            return Dec::Reject;
        }
        let d = rest[0];
        rest = &rest[1..];
        Some(d)
    } else {
        None
    };
    let ssap = if body[1] & 0x80 != 0 {
        if rest.is_empty() {
            return Dec::Reject;
        }
        let s = rest[0];
        rest = &rest[1..];
        Some(s)
    } else {
        None
    };
    Dec::Accept(
        RTel::Data {
            da,
            sa,
            dsap,
            ssap,
            fc,
            pdu: rest.to_vec(),
        },
        total,
    )
}

/// Decode a complete frame as seen on the wire (one transmission = one frame).
pub fn decode_frame(buf: &[u8]) -> Option<RTel> {
    match decode(buf) {
        Dec::Accept(t, n) if n == buf.len() => Some(t),
        _ => None,
    }
}

// ---- conversions between the library's telegram types and the reference ----------------------

use profirust::fdl;

pub fn fc_from_lib(fc: &fdl::FunctionCode) -> RFc {
    match fc {
        fdl::FunctionCode::Request { fcb, req } => {
            let (fcv, fcbit) = match fcb {
                fdl::FrameCountBit::First => (false, true),
                fdl::FrameCountBit::High => (true, true),
                fdl::FrameCountBit::Low => (true, false),
                fdl::FrameCountBit::Inactive => (false, false),
            };
            let code = match req {
                fdl::RequestType::ClockValue => 0x80,
                fdl::RequestType::TimeEvent => 0,
                fdl::RequestType::SdaLow => 3,
                fdl::RequestType::SdnLow => 4,
                fdl::RequestType::SdaHigh => 5,
                fdl::RequestType::SdnHigh => 6,
                fdl::RequestType::MulticastSrd => 7,
                fdl::RequestType::FdlStatus => 9,
                fdl::RequestType::SrdLow => 12,
                fdl::RequestType::SrdHigh => 13,
                fdl::RequestType::Ident => 14,
                fdl::RequestType::LsapStatus => 15,
            };
            RFc::Req {
                fcv,
                fcb: fcbit,
                code,
            }
        }
        fdl::FunctionCode::Response { state, status } => {
            let st = match state {
                fdl::ResponseState::Slave => 0,
                fdl::ResponseState::MasterNotReady => 1,
                fdl::ResponseState::MasterWithoutToken => 2,
                fdl::ResponseState::MasterInRing => 3,
            };
            let status = match status {
                fdl::ResponseStatus::Ok => 0,
                fdl::ResponseStatus::UserError => 1,
                fdl::ResponseStatus::NoResources => 2,
                fdl::ResponseStatus::SapNotEnabled => 3,
                fdl::ResponseStatus::DataLow => 8,
                fdl::ResponseStatus::NoDataReady => 9,
                fdl::ResponseStatus::DataHigh => 10,
                fdl::ResponseStatus::NotReceivedDataLow => 12,
                fdl::ResponseStatus::NotReceivedDataHigh => 13,
            };
            RFc::Resp { state: st, status }
        }
    }
}

pub fn from_lib(t: &fdl::Telegram) -> RTel {
    match t {
        fdl::Telegram::Token(t) => RTel::Token { da: t.da, sa: t.sa },
        fdl::Telegram::ShortConfirmation(_) => RTel::Sc,
        fdl::Telegram::Data(d) => RTel::Data {
            da: d.h.da,
            sa: d.h.sa,
            dsap: d.h.dsap,
            ssap: d.h.ssap,
            fc: fc_from_lib(&d.h.fc),
            pdu: d.pdu.to_vec(),
        },
    }
}

pub const ALL_REQ: [fdl::RequestType; 12] = [
    fdl::RequestType::ClockValue,
    fdl::RequestType::TimeEvent,
    fdl::RequestType::SdaLow,
    fdl::RequestType::SdnLow,
    fdl::RequestType::SdaHigh,
    fdl::RequestType::SdnHigh,
    fdl::RequestType::MulticastSrd,
    fdl::RequestType::FdlStatus,
    fdl::RequestType::SrdLow,
    fdl::RequestType::SrdHigh,
    fdl::RequestType::Ident,
    fdl::RequestType::LsapStatus,
];
pub const ALL_FCB: [fdl::FrameCountBit; 4] = [
    fdl::FrameCountBit::First,
    fdl::FrameCountBit::High,
    fdl::FrameCountBit::Low,
    fdl::FrameCountBit::Inactive,
];
pub const ALL_STATE: [fdl::ResponseState; 4] = [
    fdl::ResponseState::Slave,
    fdl::ResponseState::MasterNotReady,
    fdl::ResponseState::MasterWithoutToken,
    fdl::ResponseState::MasterInRing,
];
pub const ALL_STATUS: [fdl::ResponseStatus; 9] = [
    fdl::ResponseStatus::Ok,
    fdl::ResponseStatus::UserError,
    fdl::ResponseStatus::NoResources,
    fdl::ResponseStatus::SapNotEnabled,
    fdl::ResponseStatus::DataLow,
    fdl::ResponseStatus::NoDataReady,
    fdl::ResponseStatus::DataHigh,
    fdl::ResponseStatus::NotReceivedDataLow,
    fdl::ResponseStatus::NotReceivedDataHigh,
];

/// All 84 function codes the library can represent (48 requests + 36 responses).
pub fn all_lib_fcs() -> Vec<fdl::FunctionCode> {
    let mut v = Vec::new();
    for req in ALL_REQ {
        for fcb in ALL_FCB {
            v.push(fdl::FunctionCode::Request { fcb, req });
        }
    }
    for state in ALL_STATE {
        for status in ALL_STATUS {
            v.push(fdl::FunctionCode::Response { state, status });
        }
    }
    v
}

/// Self-check of the reference codec (encoder vs decoder), run before it is used as an oracle.
pub fn selfcheck() -> Result<(), String> {
    let mut n = 0;
    for le_pdu in [0usize, 1, 7, 8, 9, 100, 244] {
        for (dsap, ssap) in [(None, None), (Some(60u8), None), (None, Some(62u8)), (Some(1), Some(2))] {
            for fcb in [0x49u8, 0x6d, 0x5c, 0x08, 0x00, 0x3a, 0xc0] {
                let fc = RFc::from_byte(fcb).ok_or("fc")?;
                let pdu: Vec<u8> = (0..le_pdu).map(|i| (i * 7 + 3) as u8).collect();
                let t = RTel::Data {
                    da: 5,
                    sa: 127,
                    dsap,
                    ssap,
                    fc,
                    pdu,
                };
                let Some(enc) = encode(&t) else { continue };
                match decode(&enc) {
                    Dec::Accept(t2, n2) if t2 == t && n2 == enc.len() => {}
                    other => return Err(format!("roundtrip failed for {:?}: {:?}", t, other)),
                }
                for k in 0..enc.len() {
                    match decode(&enc[..k]) {
                        Dec::NeedMore => {}
                        other => return Err(format!("prefix {} of {:?}: {:?}", k, enc, other)),
                    }
                }
                n += 1;
            }
        }
    }
    // the one frame pinned by the standard's example used in the repository's tests
    if encode(&RTel::Data {
        da: 34,
        sa: 2,
        dsap: None,
        ssap: None,
        fc: RFc::Req {
            fcv: false,
            fcb: false,
            code: 9,
        },
        pdu: vec![],
    }) != Some(vec![0x10, 0x22, 0x02, 0x49, 0x6D, 0x16])
    {
        return Err("status request encoding".into());
    }
    if n < 100 {
        return Err("too few".into());
    }
    Ok(())
}
