//! C13 — token hold time and rotation bound; fairness between applications and stations.
//!
//! Rings as in C01 with applications of every appetite attached (never / sometimes / always ready,
//! cooperative bursts, SDN and SRD requests, peers that answer, time out or do not exist, LiveList,
//! several applications via poll_multi).  Monitors over the bus trace and the application tap:
//!   T1  an application request in token visit v is allowed iff it is the first message cycle of the
//!       visit or it starts before r(v-1) + TTR (r = token receipt; tolerance one poll period);
//!   T2  in the converged ring two consecutive receipts of one station are at most
//!       TTR + N·1.5·(Tcycle_max + Tgap + Tpass) apart;
//!   T3  every cooperative application (declines once per cycle) is asked at least once per
//!       (n_apps + 1) visits.

use crate::eng_ring::*;
use crate::refcodec::RTel;
use crate::sim::TapEv;
use crate::util::*;
use crate::vbus::*;
use crate::{Ctx, Tier};

pub fn hold_case(rep: &mut Report, seed: u64, idx: u64, verbose: bool) {
    let mut rng = Rng::derive(seed, "hold", idx);
    let mut cfg = gen_ring_cfg(&mut rng, true, true);
    // one TTR for the whole bus (a PROFIBUS bus parameter), biased towards small values so that the
    // hold time actually expires
    let ttr = match rng.usize(5) {
        0 => 256,
        1 => 256 + rng.below(3000) as u32,
        2 => 3000 + rng.below(20000) as u32,
        3 => (cfg.hsa as u32 * 5000).min(40_000),
        _ => 1000 + rng.below(8000) as u32,
    };
    for s in cfg.stations.iter_mut() {
        s.ttr_bits = ttr;
    }
    // keep the GAP short so that joiners get in within a reasonable run length
    rep.evaluations += 1;
    rep.cur_case = format!("hold {} seed {}", idx, seed);
    if verbose {
        eprintln!("{}", cfg.json().render());
    }
    let mut run = build_ring(&cfg, rng.next_u64());
    let res = run_to_convergence(rep, &mut run, "C13", 45, false);
    if verbose {
        dump_trace(&run, 300);
    }
    let Some(res) = res else { return };
    let Some(c) = res.converged_at else { return };
    if res.stable_rotations < 45 {
        // (already counted as inconclusive by the convergence loop)
        return;
    }
    let n = cfg.stations.len() as i64;
    let p = cfg.pmax();
    let ttr_us = cfg.bits(ttr as u64);
    let lat = cfg.lat();
    // --- visits per station from the trace ---
    let bus = run.world.bus.borrow();
    let t_end = bus.trace.last().map(|f| f.end).unwrap_or(0);
    let mut receipts: Vec<Vec<Us>> = vec![Vec::new(); cfg.stations.len()];
    for f in bus.trace.iter() {
        if let Some(RTel::Token { da, .. }) = &f.decoded {
            if let Some(i) = cfg.stations.iter().position(|s| s.addr == *da) {
                receipts[i].push(f.end);
            }
        }
    }
    // --- T2: rotation bound ---
    let treq_max = cfg.bits(11 * (9 + 40));
    let tcycle = treq_max + cfg.tslot() + 2 * lat + cfg.bits(11 * (9 + 12)); // request + (reply or time-out)
    let tgap = cfg.bits(66) + cfg.tslot() + lat;
    let tpass = cfg.bits(66) + lat;
    let bound = ttr_us + (n * 3 / 2 + 1) * (tcycle + tgap + tpass);
    for (i, r) in receipts.iter().enumerate() {
        let w: Vec<Us> = r.iter().copied().filter(|t| *t >= c).collect();
        for k in 1..w.len() {
            let d = w[k] - w[k - 1];
            rep.max("C13_max_rotation_over_bound", d as f64 / bound as f64);
            rep.count("C13_rotations_checked");
            if d > bound {
                rep.violation(
                    "C13/T2/rotation-bound",
                    format!("#{} received the token at {}us and again only at {}us: {}us apart, bound {}us (TTR {}us, N {}) ({})", cfg.stations[i].addr, w[k - 1], w[k], d, bound, ttr_us, n, cfg.json().render()),
                );
                return;
            }
        }
        // starvation of a station: it must receive the token at all in the window
        if w.len() < 10 {
            rep.violation("C13/T3/station-starved", format!("#{} received the token only {} times in the converged window of {} rotations ({})", cfg.stations[i].addr, w.len(), res.stable_rotations, cfg.json().render()));
            return;
        }
    }
    drop(bus);
    // --- T4: at most one GAP poll per token visit (FDL status requests the applications did not send) ---
    {
        let bus = run.world.bus.borrow();
        for (i, st) in cfg.stations.iter().enumerate() {
            let r: &Vec<Us> = &receipts[i];
            let app_req_times: std::collections::BTreeSet<Us> = run.taps[i]
                .iter()
                .filter_map(|(_, e)| if let TapEv::Ask { t, sent: Some(_), .. } = e { Some(*t) } else { None })
                .collect();
            let port = run.world.stations[i].phy.port;
            let mut polls_in_visit: std::collections::BTreeMap<usize, u32> = Default::default();
            for f in bus.trace.iter().filter(|f| f.sender == port && f.start >= c) {
                if let Some(t) = &f.decoded {
                    if t.is_fdl_status_req() && !app_req_times.contains(&f.start) {
                        let v = r.partition_point(|x| *x <= f.start);
                        *polls_in_visit.entry(v).or_default() += 1;
                        rep.count("C13_gap_polls_counted");
                    }
                }
            }
            if let Some((v, n)) = polls_in_visit.iter().find(|(_, n)| **n > 1) {
                rep.violation("C13/T4/several-gap-polls-in-one-visit", format!("#{} sent {} GAP polls during one token visit (visit starting at {}us) ({})", st.addr, n, r.get(v.saturating_sub(1)).copied().unwrap_or(0), cfg.json().render()));
                return;
            }
        }
    }
    // --- T1 / T3 from the tap ---
    for (i, st) in cfg.stations.iter().enumerate() {
        let r: Vec<Us> = receipts[i].clone();
        if r.len() < 3 {
            continue;
        }
        let (napps, turn_bound) = match &run.world.stations[i].apps {
            RingApp::None => (0usize, 0usize),
            RingApp::Live(_) | RingApp::Scan(_) => (1, 3),
            RingApp::Traffic(a) => (1, a.inner.max_per_cycle as usize + 3),
            // round-robin in application cycles: between two turns of one application every other
            // application gets one cycle (a burst + the declining ask); with an expired hold time
            // every request costs one token visit
            RingApp::Multi(v) => (v.len(), v.iter().map(|a| a.inner.max_per_cycle as usize + 1).sum::<usize>() + 2),
        };
        // application requests (sent) and asks per visit
        let mut vi = 0usize; // index of the current visit: r[vi] <= t < r[vi+1]
        let mut sent_in_visit = 0u32;
        let mut asked_visit: Vec<Vec<usize>> = vec![Vec::new(); napps]; // visits in which app k was asked
        for (k, ev) in run.taps[i].iter() {
            let TapEv::Ask { t, sent, high_prio_only, .. } = ev else { continue };
            if *t < r[0] {
                continue;
            }
            while vi + 1 < r.len() && *t >= r[vi + 1] - 0 {
                // the receipt poll comes after the frame end; requests always come later than that
                vi += 1;
                sent_in_visit = 0;
            }
            if *k < asked_visit.len() && asked_visit[*k].last() != Some(&vi) {
                asked_visit[*k].push(vi);
            }
            if sent.is_none() {
                continue;
            }
            rep.count("C13_app_requests_checked");
            if *high_prio_only {
                rep.count("C13_requests_in_guaranteed_cycle_after_hold_time");
            }
            let in_window = r[vi] >= c && vi >= 1;
            if in_window {
                let first = sent_in_visit == 0;
                let deadline = r[vi - 1] + ttr_us + p + 2;
                if !first && *t >= deadline {
                    rep.violation(
                        "C13/T1/request-after-hold-time",
                        format!(
                            "#{} started message cycle no. {} of its token visit at {}us although its hold time ended at {}us (previous receipt {}us + TTR {}us, this receipt {}us) ({})",
                            st.addr,
                            sent_in_visit + 1,
                            t,
                            deadline,
                            r[vi - 1],
                            ttr_us,
                            r[vi],
                            cfg.json().render()
                        ),
                    );
                    return;
                }
                if first && *t >= deadline {
                    rep.count("C13_first_cycle_granted_after_hold_time_expired");
                }
                if !first {
                    rep.count("C13_further_cycles_inside_hold_time");
                }
            }
            sent_in_visit += 1;
        }
        // T3: cooperative applications are asked regularly
        let cooperative = st.app == 3 || (st.app == 2 && st.appetite != 2) || st.app == 1;
        if cooperative && napps > 0 {
            let first_visit_in_window = r.iter().position(|t| *t >= c).unwrap_or(0);
            for (k, visits) in asked_visit.iter().enumerate() {
                let v: Vec<usize> = visits.iter().copied().filter(|x| *x >= first_visit_in_window).collect();
                for w in v.windows(2) {
                    rep.count("C13_app_turn_gaps_checked");
                    if w[1] - w[0] > turn_bound {
                        rep.violation("C13/T3/application-starved", format!("application {} of #{} was not asked for {} token visits ({} applications) ({})", k, st.addr, w[1] - w[0], napps, cfg.json().render()));
                        return;
                    }
                }
                let last_visit = r.len() - 1;
                if v.is_empty() || last_visit - v[v.len() - 1] > turn_bound + 1 {
                    rep.violation("C13/T3/application-starved", format!("application {} of #{} was not asked in the last {} token visits ({})", k, st.addr, last_visit - v.last().copied().unwrap_or(first_visit_in_window), cfg.json().render()));
                    return;
                }
            }
        }
    }
    let _ = t_end;
    rep.count("C13_rings_checked");
    rep.count(&format!("C13_ttr_class_{}", if ttr < 1000 { "tiny" } else if ttr < 10000 { "small" } else { "large" }));
    let mut fp = Fp::new();
    fp.u(ttr as u64).u(cfg.baud.to_rate()).u(cfg.slot_bits as u64);
    for s in &cfg.stations {
        fp.u(s.addr as u64).u(s.app as u64).u(s.appetite as u64).u(s.srd as u64).u((s.period * 8 / cfg.tslot().max(1)) as u64);
    }
    rep.nontrivial(fp.get());
    if idx % 64 < 2 {
        rep.sample(J::obj(vec![("kind", J::s("ring with applications: hold time / rotation / fairness")), ("config", cfg.json()), ("ttr_bits", J::U(ttr as u64)), ("rotation_bound_us", J::I(bound))]));
    }
}

pub fn c13(ctx: &mut Ctx) {
    let seed = ctx.seed;
    if let Some(only) = ctx.only.clone() {
        if only[0] == "hold" {
            let idx: u64 = only[1].parse().unwrap();
            let s = if only.len() >= 4 { only[3].parse().unwrap_or(seed) } else { seed };
            hold_case(&mut ctx.rep, s, idx, true);
        }
        return;
    }
    let n = ctx.n(2000, 120_000, 2);
    for k in 0..n {
        hold_case(&mut ctx.rep, seed, ctx.shard + k * ctx.nshards, false);
    }
    let _ = Tier::Quick;
}
