//! C02, second engine: the list of active stations (`TokenRing`, re-exported by the verif-hooks
//! feature) driven directly with random and hostile call sequences against a reference LAS written
//! with plain sets.  Also run under Miri (bitvec is `unsafe`-heavy and indexed with bus-controlled
//! addresses).

use crate::util::*;
use crate::Ctx;
use profirust::fdl::VerifTokenRing as TokenRing;
use std::collections::BTreeSet;

#[derive(Clone, Copy, PartialEq, Eq, Debug)]
enum St {
    Uninit,
    Discovery,
    Verification,
    Valid,
}

pub struct RefLas {
    pub ts: u8,
    pub las: BTreeSet<u8>,
    st: St,
}

/// cyclic half-open interval [a, b) over 0..128
fn in_range(x: u8, a: u8, b: u8) -> bool {
    if b > a {
        x >= a && x < b
    } else {
        x >= a || x < b
    }
}

impl RefLas {
    pub fn new(ts: u8) -> Self {
        RefLas {
            ts,
            las: [ts].into_iter().collect(),
            st: St::Uninit,
        }
    }
    fn update(&mut self, sa: u8, da: u8) {
        self.las.retain(|x| !in_range(*x, sa, da));
        self.las.insert(sa);
    }
    fn verify(&self, sa: u8, da: u8) -> bool {
        if !self.las.contains(&sa) || !self.las.contains(&da) {
            return false;
        }
        // nobody strictly between sa and da
        !self.las.iter().any(|x| *x != sa && in_range(*x, sa, da))
    }
    pub fn is_valid(&self) -> bool {
        self.st == St::Valid
    }
    pub fn witness(&mut self, sa: u8, da: u8) {
        if sa > 125 || da > 125 {
            return;
        }
        match self.st {
            St::Uninit => {
                if da <= sa {
                    self.st = St::Discovery;
                }
            }
            St::Discovery => {
                self.update(sa, da);
                if da <= sa {
                    self.st = St::Verification;
                }
            }
            St::Verification => {
                if !self.verify(sa, da) {
                    self.update(sa, da);
                    self.st = St::Discovery;
                } else if da <= sa {
                    self.st = St::Valid;
                }
            }
            St::Valid => self.update(sa, da),
        }
    }
    pub fn ns(&self) -> u8 {
        self.las.iter().copied().find(|a| *a > self.ts).or_else(|| self.las.iter().copied().next()).unwrap_or(self.ts)
    }
    pub fn ps(&self) -> u8 {
        self.las.iter().rev().copied().find(|a| *a < self.ts).or_else(|| self.las.iter().rev().copied().next()).unwrap_or(self.ts)
    }
}

#[derive(Clone, Debug)]
enum Call {
    Witness(u8, u8),
    Claim,
    SetNext(u8),
    Remove(u8),
}

fn compare(rep: &mut Report, lib: &TokenRing, model: &RefLas, calls: &[Call], k: usize) -> bool {
    let las: BTreeSet<u8> = lib.iter_active_stations().collect();
    let what = |field: &str, a: String, b: String| format!("after call {} of {:?} (TS {}): {} is {} but the reference LAS says {}", k, &calls[..=k.min(calls.len() - 1)].iter().rev().take(8).rev().collect::<Vec<_>>(), model.ts, field, a, b);
    if las != model.las {
        rep.violation("C02/las-engine/las-differs", what("LAS", format!("{:?}", las), format!("{:?}", model.las)));
        return false;
    }
    if lib.next_station() != model.ns() {
        rep.violation("C02/las-engine/ns-differs", what("NS", lib.next_station().to_string(), model.ns().to_string()));
        return false;
    }
    if lib.previous_station() != model.ps() {
        rep.violation("C02/las-engine/ps-differs", what("PS", lib.previous_station().to_string(), model.ps().to_string()));
        return false;
    }
    if lib.ready_for_ring() != (model.st == St::Valid) {
        rep.violation("C02/las-engine/readiness-differs", what("ready", lib.ready_for_ring().to_string(), format!("{:?}", model.st)));
        return false;
    }
    if lib.this_station() != model.ts {
        rep.violation("C02/las-engine/ts-changed", what("TS", lib.this_station().to_string(), model.ts.to_string()));
        return false;
    }
    // algorithm-independent invariant: NS / PS are the cyclic neighbours of TS in the LAS
    let others: Vec<u8> = las.iter().copied().filter(|a| *a != model.ts).collect();
    let (want_ns, want_ps) = if others.is_empty() {
        (las.iter().copied().next().unwrap_or(model.ts), las.iter().copied().next().unwrap_or(model.ts))
    } else {
        (
            others.iter().copied().find(|a| *a > model.ts).unwrap_or(*las.iter().next().unwrap()),
            others.iter().rev().copied().find(|a| *a < model.ts).unwrap_or(*las.iter().next_back().unwrap()),
        )
    };
    if lib.next_station() != want_ns || lib.previous_station() != want_ps {
        rep.violation("C02/las-engine/neighbours-not-cyclic", what("NS/PS", format!("{}/{}", lib.next_station(), lib.previous_station()), format!("{}/{}", want_ns, want_ps)));
        return false;
    }
    true
}

fn random_case(rep: &mut Report, seed: u64, idx: u64, verbose: bool) {
    let mut rng = Rng::derive(seed, "las", idx);
    let ts = match rng.usize(5) {
        0 => 0,
        1 => 125,
        _ => rng.below(126) as u8,
    };
    // small alphabet so that sequences interact
    let mut alphabet: Vec<u8> = vec![ts];
    for _ in 0..2 + rng.usize(5) {
        alphabet.push(match rng.usize(8) {
            0 => ts.wrapping_add(1).min(125),
            1 => ts.saturating_sub(1),
            2 => 0,
            3 => 125,
            _ => rng.below(126) as u8,
        });
    }
    let hostile: [u8; 4] = [126, 127, 200, 255];
    let n = 5 + rng.usize(60);
    let mut calls = Vec::new();
    // sometimes start with a clean rotation or two so that the valid state is reached
    let mut ring: Vec<u8> = alphabet.clone();
    ring.sort();
    ring.dedup();
    if rng.bool() {
        let without_ts: Vec<u8> = if rng.bool() { ring.iter().copied().filter(|a| *a != ts).collect() } else { ring.clone() };
        if without_ts.len() >= 1 {
            for _ in 0..1 + rng.usize(3) {
                for k in 0..without_ts.len() {
                    calls.push(Call::Witness(without_ts[k], without_ts[(k + 1) % without_ts.len()]));
                }
            }
        }
    }
    for _ in 0..n {
        calls.push(match rng.usize(12) {
            0 => Call::Claim,
            1 => Call::SetNext(*rng.pick(&alphabet)),
            2 => Call::Remove(*rng.pick(&alphabet)),
            3 => Call::Witness(*rng.pick(&hostile), *rng.pick(&alphabet)),
            4 => Call::Witness(*rng.pick(&alphabet), *rng.pick(&hostile)),
            5 => Call::Remove(rng.below(128) as u8),
            6 => Call::SetNext(rng.below(126) as u8),
            _ => Call::Witness(*rng.pick(&alphabet), *rng.pick(&alphabet)),
        });
    }
    if verbose {
        eprintln!("TS {} calls {:?}", ts, calls);
    }
    rep.evaluations += 1;
    rep.cur_case = format!("las {} seed {}", idx, seed);
    let param = {
        let mut b = profirust::fdl::ParametersBuilder::new(ts, profirust::Baudrate::B19200);
        b.build()
    };
    let mut lib = match catch(|| TokenRing::new(&param)) {
        Ok(l) => l,
        Err(p) => {
            rep.violation(format!("C02/las-engine/panic/{}", p.class()), p.message);
            return;
        }
    };
    let mut model = RefLas::new(ts);
    let mut states = BTreeSet::new();
    for (k, c) in calls.iter().enumerate() {
        let r = catch(|| match c {
            Call::Witness(sa, da) => lib.witness_token_pass(*sa, *da),
            Call::Claim => lib.claim_token(),
            Call::SetNext(a) => lib.set_next_station(*a),
            Call::Remove(a) => lib.remove_station(*a),
        });
        if let Err(p) = r {
            rep.violation(format!("C02/las-engine/panic/{}", p.class()), format!("call {} {:?}: {}", k, c, p.message));
            return;
        }
        match c {
            Call::Witness(sa, da) => model.witness(*sa, *da),
            Call::Claim => model.st = St::Valid,
            Call::SetNext(a) => {
                model.las.insert(*a);
                let ts = model.ts;
                model.update(ts, *a);
            }
            Call::Remove(a) => {
                model.las.remove(a);
            }
        }
        if !compare(rep, &lib, &model, &calls, k) {
            return;
        }
        // Debug formatting of the ring must not panic either (it is used in log messages)
        if k % 16 == 0 {
            if let Err(p) = catch(|| format!("{:?}", lib)) {
                rep.violation(format!("C02/las-engine/panic/{}", p.class()), p.message);
                return;
            }
        }
        rep.count("las_calls_checked");
        let mut fp = Fp::new();
        for a in &model.las {
            fp.u(*a as u64);
        }
        fp.u(model.st as u64);
        states.insert(fp.get());
    }
    rep.add("las_states_visited", states.len() as u64);
    let mut fp = Fp::new();
    fp.s(&format!("{:?}{}", calls, ts));
    rep.nontrivial(fp.get());
    if idx < 32 && idx % 16 == 0 {
        rep.sample(J::obj(vec![("kind", J::s("LAS call sequence vs reference LAS")), ("ts", J::U(ts as u64)), ("calls", J::s(format!("{:?}", &calls[..calls.len().min(12)])))]));
    }
}

/// Semantic scenario: a listener that witnesses a consistent ring learns exactly that ring.
fn listener_case(rep: &mut Report, seed: u64, idx: u64) {
    let mut rng = Rng::derive(seed, "las-listen", idx);
    let ts = rng.below(126) as u8;
    let mut ring: BTreeSet<u8> = BTreeSet::new();
    for _ in 0..1 + rng.usize(6) {
        let a = rng.below(126) as u8;
        if a != ts {
            ring.insert(a);
        }
    }
    if ring.is_empty() {
        ring.insert((ts + 1) % 126);
    }
    let ring: Vec<u8> = ring.into_iter().collect();
    rep.evaluations += 1;
    rep.cur_case = format!("las-listen {} seed {}", idx, seed);
    let param = profirust::fdl::ParametersBuilder::new(ts, profirust::Baudrate::B19200).build();
    let mut lib = TokenRing::new(&param);
    let start = rng.usize(ring.len());
    let mut passes = 0usize;
    let mut ready_after: Option<usize> = None;
    // at most 3 rotations + the partial one are needed: (partial) wrap, discovery, verification
    for k in 0..ring.len() * 4 + 1 {
        let i = (start + k) % ring.len();
        let (sa, da) = (ring[i], ring[(i + 1) % ring.len()]);
        if let Err(p) = catch(|| lib.witness_token_pass(sa, da)) {
            rep.violation(format!("C02/las-engine/panic/{}", p.class()), p.message);
            return;
        }
        passes += 1;
        if lib.ready_for_ring() && ready_after.is_none() {
            ready_after = Some(passes);
            // "two identical rotations": not ready before two full rotations were witnessed
            if passes < 2 * ring.len() {
                rep.violation("C02/las-engine/ready-too-early", format!("TS {} ring {:?}: ready after only {} witnessed passes", ts, ring, passes));
                return;
            }
        }
    }
    if ready_after.is_none() {
        rep.violation("C02/las-engine/listener-never-ready", format!("TS {} ring {:?}: not ready after {} passes", ts, ring, passes));
        return;
    }
    let las: Vec<u8> = lib.iter_active_stations().collect();
    if las != ring {
        rep.violation("C02/las-engine/listener-las-wrong", format!("TS {} witnessed ring {:?} but LAS is {:?}", ts, ring, las));
        return;
    }
    let want_ns = ring.iter().copied().find(|a| *a > ts).unwrap_or(ring[0]);
    let want_ps = ring.iter().rev().copied().find(|a| *a < ts).unwrap_or(*ring.last().unwrap());
    if lib.next_station() != want_ns || lib.previous_station() != want_ps {
        rep.violation("C02/las-engine/listener-neighbours-wrong", format!("TS {} ring {:?}: NS/PS {}/{} want {}/{}", ts, ring, lib.next_station(), lib.previous_station(), want_ns, want_ps));
        return;
    }
    rep.count("listener_scenarios_checked");
    let mut fp = Fp::new();
    fp.u(ts as u64);
    for a in &ring {
        fp.u(*a as u64);
    }
    fp.u(start as u64);
    rep.nontrivial(fp.get());
}

pub fn run(ctx: &mut Ctx, q: u64, t: u64, m: u64) {
    let seed = ctx.seed;
    if let Some(only) = ctx.only.clone() {
        let idx: u64 = only[1].parse().unwrap();
        let s = if only.len() >= 4 { only[3].parse().unwrap_or(seed) } else { seed };
        match only[0].as_str() {
            "las" => random_case(&mut ctx.rep, s, idx, true),
            "las-listen" => listener_case(&mut ctx.rep, s, idx),
            _ => {}
        }
        return;
    }
    let n = ctx.n(q, t, m);
    for k in 0..n {
        if ctx.over_budget() {
            break;
        }
        random_case(&mut ctx.rep, seed, ctx.shard + k * ctx.nshards, false);
    }
    let n = ctx.n(q / 4, t / 4, m / 2);
    for k in 0..n {
        if ctx.over_budget() {
            break;
        }
        listener_case(&mut ctx.rep, seed, ctx.shard + k * ctx.nshards);
    }
}
