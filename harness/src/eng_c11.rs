//! C11 — token acceptance, supervision and retry rules of a single station against a scripted ring.
//!
//! The environment plays the other stations of the ring (and strangers).  Rules, evaluated in clean
//! contexts only (frame intact, alone, preceded and followed by idle):
//!   A1 in ring, token from PS            => the station acts as holder within Tsyn + L
//!   A2 in ring, token from X != PS       => first offer: silent; second consecutive offer: acts
//!   A3 not in ring (listening)           => never acts on a token addressed to it
//!   S1 after its pass, bus silent        => identical token again after >= Tslot and <= Tslot + L, at
//!                                           most twice; then NS is gone from its LAS and the next
//!                                           token goes to the next LAS member (or TS->TS)
//!   S2 anything heard from NS in the slot => no retry, NS stays in the LAS

use crate::eng_script::*;
use crate::refcodec::{RFc, RTel};
use crate::util::*;
use crate::vbus::*;
use crate::{Ctx, Tier};

pub const N_DEV: u8 = 13;
const DEV_NAMES: [&str; 13] = [
    "normal",
    "silent-1",
    "silent-2",
    "silent-3-remove",
    "heard-status-request",
    "heard-sdn",
    "stranger-once",
    "stranger-twice",
    "token-from-invalid-address",
    "token-to-invalid-address",
    "status-request-to-ts",
    "foreign-token-elsewhere",
    "two-strangers-once-each",
];

struct Env {
    /// virtual stations of the ring (sorted), not including TS
    ring: Vec<u8>,
    strangers: Vec<u8>,
}

impl Env {
    fn succ_of(&self, a: u8, ts: u8) -> u8 {
        let mut all: Vec<u8> = self.ring.clone();
        all.push(ts);
        if !all.contains(&a) {
            all.push(a);
        }
        all.sort();
        all.dedup();
        let k = all.iter().position(|x| *x == a).unwrap();
        all[(k + 1) % all.len()]
    }
    fn ns_of_ts(&self, ts: u8) -> u8 {
        self.succ_of(ts, ts)
    }
    fn ps_of_ts(&self, ts: u8) -> u8 {
        let mut all: Vec<u8> = self.ring.clone();
        all.push(ts);
        all.sort();
        let k = all.iter().position(|x| *x == ts).unwrap();
        all[(k + all.len() - 1) % all.len()]
    }
}

struct Case<'a> {
    rig: Rig,
    env: Env,
    rep: &'a mut Report,
    descr: String,
    failed: bool,
}

impl<'a> Case<'a> {
    fn viol(&mut self, sig: &str, what: String) {
        if !self.failed {
            let hist: Vec<String> = self.rig.history.iter().rev().take(14).rev().cloned().collect();
            self.rep.violation(sig.to_string(), format!("{} [{}] last events: {:?}", what, self.descr, hist));
        }
        self.failed = true;
    }

    fn check_panic(&mut self) -> bool {
        if let Some(p) = self.rig.panicked().cloned() {
            // C05's business; the case cannot continue
            self.rep.count(&format!("C11_panic_seen_{}", p.class()));
            self.failed = true;
            return true;
        }
        false
    }

    /// The station holds the token: consume its frames until it passes the token on.  Returns the
    /// destination of the pass and the end time of the pass frame.
    fn station_holds(&mut self, first: Option<TxRec>) -> Option<(u8, Us)> {
        let cfg = self.rig.cfg.clone();
        let mut f = first;
        let mut guard = 0;
        loop {
            guard += 1;
            if guard > 300 {
                self.viol("C11/station-never-passes-the-token", "more than 300 frames in one token holding".into());
                return None;
            }
            let fr = match f.take() {
                Some(fr) => fr,
                None => {
                    let dl = self.rig.now() + cfg.tslot() + 2 * cfg.lat() + cfg.bits(33);
                    match self.rig.next_station_tx(dl) {
                        Some(fr) => fr,
                        None => {
                            if self.check_panic() {
                                return None;
                            }
                            self.viol("C11/holder-falls-silent", format!("the station holds the token but transmits nothing for a slot time (state {:?})", self.rig.fdl().verif_probe().state));
                            return None;
                        }
                    }
                }
            };
            match &fr.decoded {
                Some(RTel::Token { sa, da }) if *sa == cfg.ts => return Some((*da, fr.end)),
                Some(t) if t.is_fdl_status_req() => {
                    // GAP poll: strangers inside the GAP do not answer; nothing to do
                    self.rep.count("C11_gap_polls_seen_while_holding");
                }
                other => {
                    self.viol("C11/unexpected-frame-while-holding", format!("{:?}", other.as_ref().map(|t| t.short())));
                    return None;
                }
            }
        }
    }

    /// The environment walks the token from `from` (an env station that holds it) around the env
    /// stations until the predecessor of TS hands it to TS.  Returns the end time of that frame.
    fn env_walk_to_ts(&mut self, from: u8) -> Us {
        let ts = self.rig.cfg.ts;
        let mut cur = from;
        loop {
            let next = self.env.succ_of(cur, ts);
            let end = self.rig.env_token(cur, next, 40);
            if next == ts {
                return end;
            }
            cur = next;
        }
    }

    /// A1: after a clean token from PS the station acts within Tsyn + L.
    fn expect_accept(&mut self, t_end: Us, rule: &str, who: &str) -> Option<TxRec> {
        let cfg = self.rig.cfg.clone();
        let dl = t_end + cfg.bits(33) + cfg.lat();
        match self.rig.next_station_tx(dl) {
            Some(f) => {
                self.rep.max("C11_max_accept_latency_over_bound", (f.start - t_end) as f64 / (cfg.bits(33) + cfg.lat()) as f64);
                Some(f)
            }
            None => {
                if self.check_panic() {
                    return None;
                }
                self.viol(&format!("C11/{}/no-action-after-token", rule), format!("token from {} ended at {}us, the station did not act as holder within {}us (state {:?}, PS {}, LAS {:?})", who, t_end, cfg.bits(33) + cfg.lat(), self.rig.fdl().verif_probe().state, self.rig.fdl().inspect_token_ring().previous_station(), self.rig.las()));
                None
            }
        }
    }

    fn expect_silence(&mut self, until: Us, rule: &str, why: &str) -> bool {
        match self.rig.station_silent_until(until) {
            Ok(()) => true,
            Err(f) => {
                // a status reply to a request addressed to it is not "acting as holder"
                self.viol(&format!("C11/{}", rule), format!("{}: the station transmitted {:?} at {}us", why, f.decoded.map(|t| t.short()), f.start));
                false
            }
        }
    }
}

fn gen_env(rng: &mut Rng, cfg: &ScriptCfg, n_env: usize) -> Env {
    let mut ring: Vec<u8> = Vec::new();
    let mut tries = 0;
    while ring.len() < n_env && tries < 1000 {
        tries += 1;
        let a = match rng.usize(4) {
            0 => (cfg.ts as u16 + 1) as u8 % cfg.hsa,
            1 => (cfg.ts as u16 + cfg.hsa as u16 - 1) as u8 % cfg.hsa,
            _ => rng.below(cfg.hsa as u64) as u8,
        };
        if a != cfg.ts && !ring.contains(&a) {
            ring.push(a);
        }
    }
    ring.sort();
    let mut strangers = Vec::new();
    tries = 0;
    while strangers.len() < 2 && tries < 1000 {
        tries += 1;
        let a = rng.below(126) as u8;
        if a != cfg.ts && !ring.contains(&a) && !strangers.contains(&a) {
            strangers.push(a);
        }
    }
    Env { ring, strangers }
}

pub fn c11_case(rep: &mut Report, seed: u64, idx: u64, script: Option<Vec<u8>>, prefix: u8, verbose: bool) {
    let mut rng = Rng::derive(seed, "c11", idx);
    let cfg = ScriptCfg::gen(&mut rng, None);
    let n_env = match prefix % 3 {
        0 => 1, // 2-ring
        1 => 2, // 3-ring
        _ => 1 + rng.usize(3),
    };
    let env = gen_env(&mut rng, &cfg, n_env);
    let script: Vec<u8> = script.unwrap_or_else(|| (0..1 + rng.usize(30)).map(|_| rng.below(N_DEV as u64) as u8).collect());
    let join_mode = prefix >= 3;
    rep.evaluations += 1;
    let descr = format!("{} env ring {:?} strangers {:?} mode {} script {:?}", cfg.json().render(), env.ring, env.strangers, if join_mode { "join" } else { "claim" }, script.iter().map(|d| DEV_NAMES[*d as usize]).collect::<Vec<_>>());
    if verbose {
        eprintln!("{}", descr);
    }
    let rig = Rig::new(&cfg, app_none(), rng.next_u64());
    let mut c = Case {
        rig,
        env,
        rep,
        descr,
        failed: false,
    };
    let ts = cfg.ts;
    let mut states = std::collections::BTreeSet::new();
    // ---------------- bring-up ----------------
    // after this block the token is with the environment at `holder`, handed over by TS at `t_pass`
    let mut holder: u8;
    let mut t_pass: Us;
    if !join_mode {
        let ready = c.env.ring.clone();
        match bring_up_by_claim(&mut c.rig, &ready) {
            Ok(Some(ns)) => {
                if ns != c.env.ns_of_ts(ts) {
                    c.viol("C11/setup/wrong-successor-after-claim", format!("after the post-claim scan the token went to #{} but the nearest ready station is #{}", ns, c.env.ns_of_ts(ts)));
                    return;
                }
                holder = ns;
                t_pass = c.rig.last_end();
                if c.env.ring.len() >= 2 {
                    // learning rotation: the station only knows its successor so far; the token comes
                    // back from a station it has never heard of, which must offer it twice (A2)
                    let mut cur = holder;
                    loop {
                        let next = c.env.succ_of(cur, ts);
                        if next == ts {
                            break;
                        }
                        c.rig.env_token(cur, next, 40);
                        cur = next;
                    }
                    let e = c.rig.env_token(cur, ts, 40);
                    if !c.expect_silence(e + cfg.tslot() + cfg.lat(), "A2/accepted-first-offer-from-non-predecessor", &format!("first token {}->{} from a station it has never heard of (PS {})", cur, ts, c.rig.fdl().inspect_token_ring().previous_station())) {
                        return;
                    }
                    c.rep.count("C11_A2_first_offers_declined");
                    let e = c.rig.env_token(cur, ts, 34);
                    let Some(f) = c.expect_accept(e, "A2/second-offer", &format!("#{} (second offer)", cur)) else { return };
                    c.rep.count("C11_A2_second_offers_accepted");
                    let Some((da, tp)) = c.station_holds(Some(f)) else { return };
                    holder = da;
                    t_pass = tp;
                    let mut want: Vec<u8> = c.env.ring.clone();
                    want.push(ts);
                    want.sort();
                    if c.rig.las() != want {
                        c.viol("C11/setup/las-after-learning-rotation", format!("LAS {:?} after one witnessed rotation of {:?}", c.rig.las(), want));
                        return;
                    }
                }
            }
            Ok(None) => {
                c.viol("C11/setup/no-successor-found", "ready stations answered the post-claim scan but the station kept the token".into());
                return;
            }
            Err(e) => {
                if !c.check_panic() {
                    c.rep.inconclusive(format!("C11 bring-up failed: {}", e));
                }
                return;
            }
        }
        c.rep.count("C11_bringup_claim");
    } else {
        // the environment's ring is running; TS listens
        let first = c.env.ring[0];
        let mut cur = first;
        let rotations = 3 + rng.usize(2);
        let mut hops = 0;
        // A3 probes while listening: tokens addressed to TS from its future PS and from strangers
        let probe_at = rng.usize(c.env.ring.len() * 2 + 1);
        // (the probe tokens are witnessed by the listener and restart its LAS discovery, so at least
        //  three clean rotations follow them)
        let total_hops = probe_at + 1 + c.env.ring.len() * (rotations + 1);
        while hops < total_hops {
            let next = {
                let k = c.env.ring.iter().position(|x| *x == cur).unwrap();
                c.env.ring[(k + 1) % c.env.ring.len()]
            };
            c.rig.env_token(cur, next, 40);
            if hops == probe_at {
                let from = if rng.bool() { c.env.ps_of_ts(ts) } else { c.env.strangers[0] };
                let e = c.rig.env_token(from, ts, 40);
                if !c.expect_silence(e + cfg.tslot() + cfg.lat(), "A3/listening-station-acts-on-token", &format!("listening (not in ring), token {}->{} addressed to it", from, ts)) {
                    return;
                }
                // twice in a row: still nothing
                let e = c.rig.env_token(from, ts, 40);
                if !c.expect_silence(e + cfg.tslot() + cfg.lat(), "A3/listening-station-acts-on-token", &format!("listening (not in ring), second token {}->{} addressed to it", from, ts)) {
                    return;
                }
                c.rep.count("C11_A3_listening_tokens_ignored");
                // the ring's holder carries on (its token was never really given away)
            }
            cur = next;
            hops += 1;
            if c.check_panic() {
                return;
            }
        }
        if c.rig.fdl().is_in_ring() {
            c.viol("C11/A3/in-ring-without-token", "the station considers itself in the ring although it was never polled or given the token".into());
            return;
        }
        // GAP poll by the predecessor, then the token
        let ps = c.env.ps_of_ts(ts);
        // walk the token to ps
        while cur != ps {
            let k = c.env.ring.iter().position(|x| *x == cur).unwrap();
            let next = c.env.ring[(k + 1) % c.env.ring.len()];
            c.rig.env_token(cur, next, 40);
            cur = next;
        }
        let rq = c.rig.status_request(ps, ts);
        let e = c.rig.env_tel(&rq, 40);
        let Some(f) = c.rig.next_station_tx(e + cfg.tslot()) else {
            if !c.check_panic() {
                c.viol("C11/setup/no-status-reply", "no reply to the predecessor's status request within the slot time".into());
            }
            return;
        };
        match &f.decoded {
            Some(RTel::Data { fc: RFc::Resp { state: 2, .. }, .. }) => {}
            other => {
                c.rep.inconclusive(format!("C11 join bring-up: status reply {:?} instead of 'ready'", other.as_ref().map(|t| t.short())));
                return;
            }
        }
        let e = c.rig.env_token(ps, ts, 40);
        let Some(f) = c.expect_accept(e, "A1", &format!("PS #{} (first token after joining)", ps)) else { return };
        let Some((da, tp)) = c.station_holds(Some(f)) else { return };
        if da != c.env.ns_of_ts(ts) {
            c.viol("C11/setup/wrong-successor-after-join", format!("token passed to #{} but NS should be #{} (LAS {:?})", da, c.env.ns_of_ts(ts), c.rig.las()));
            return;
        }
        holder = da;
        t_pass = tp;
        c.rep.count("C11_bringup_join");
    }
    // ---------------- scripted rotations ----------------
    for (step, dev) in script.iter().enumerate() {
        if c.failed || c.check_panic() {
            return;
        }
        let _ = &mut states;
        c.rep.count(&format!("C11_step_{}", DEV_NAMES[*dev as usize]));
        let ns = holder;
        let alone = c.env.ring.is_empty();
        if alone {
            // the station is alone now: it keeps passing the token to itself
            let dl = c.rig.now() + cfg.tslot() * 3;
            match c.rig.next_station_tx(dl) {
                Some(_) => continue,
                None => {
                    if !c.check_panic() {
                        c.viol("C11/lone-station-falls-silent", "alone in the ring but no transmission for three slot times".into());
                    }
                    return;
                }
            }
        }
        match *dev {
            // ---- silent successor ----
            1 | 2 | 3 => {
                let n_silent = *dev as usize;
                let las_before = c.rig.las();
                let mut last_end = t_pass;
                let mut removed = false;
                for attempt in 1..=n_silent {
                    // nothing is sent; expect the identical token after Tslot .. Tslot + L
                    let dl = last_end + cfg.tslot() + cfg.lat();
                    let Some(f) = c.rig.next_station_tx(dl) else {
                        if !c.check_panic() {
                            c.viol("C11/S1/no-retry", format!("token {}->{} at {}us was not answered, but no retry within Tslot + L", ts, ns, last_end));
                        }
                        return;
                    };
                    let early = f.start < last_end + cfg.tslot() - 1;
                    if early {
                        c.viol("C11/S1/retry-before-slot-time", format!("retry started {}us after the pass, slot time is {}us", f.start - last_end, cfg.tslot()));
                        return;
                    }
                    c.rep.max("C11_max_retry_delay_over_bound", (f.start - last_end) as f64 / (cfg.tslot() + cfg.lat()) as f64);
                    if attempt <= 2 {
                        if !is_token(&f, ts, ns) {
                            c.viol("C11/S1/retry-differs", format!("expected the token {}->{} again (attempt {}), got {:?}", ts, ns, attempt + 1, f.decoded.map(|t| t.short())));
                            return;
                        }
                        c.rep.count("C11_S1_retries_checked");
                        last_end = f.end;
                    } else {
                        // third silence: NS is removed, the token goes to the next LAS member
                        if is_token(&f, ts, ns) {
                            c.viol("C11/S1/fourth-attempt", format!("token {}->{} sent a fourth time", ts, ns));
                            return;
                        }
                        c.env.ring.retain(|x| *x != ns);
                        // "passes to the next station of its ring view (or keeps the token if alone)"
                        let want = {
                            let mut v: Vec<u8> = las_before.iter().copied().filter(|x| *x != ns).collect();
                            if !v.contains(&ts) {
                                v.push(ts);
                            }
                            v.sort();
                            let k = v.iter().position(|x| *x == ts).unwrap();
                            v[(k + 1) % v.len()]
                        };
                        let Some(RTel::Token { sa, da }) = f.decoded.clone() else {
                            c.viol("C11/S1/no-token-after-removal", format!("after three unanswered passes got {:?}", f.decoded.map(|t| t.short())));
                            return;
                        };
                        if sa != ts || da != want {
                            c.viol("C11/S1/wrong-successor-after-removal", format!("after removing #{} the token went {}->{} instead of to #{}", ns, sa, da, want));
                            return;
                        }
                        if c.rig.las().contains(&ns) {
                            c.viol("C11/S1/silent-successor-still-in-las", format!("#{} did not take the token three times but is still in the LAS {:?}", ns, c.rig.las()));
                            return;
                        }
                        c.rep.count("C11_S1_removals_checked");
                        removed = true;
                        holder = da;
                        t_pass = f.end;
                    }
                }
                if removed {
                    if holder == ts {
                        // alone now (stations it never learnt about are out of the game)
                        c.env.ring.clear();
                        continue;
                    }
                    // the next deviation applies to this first pass to the new successor (for which the
                    // attempt count starts again)
                    if !c.env.ring.contains(&holder) {
                        c.env.ring.push(holder);
                        c.env.ring.sort();
                        c.env.strangers.retain(|x| *x != holder);
                        if c.env.strangers.is_empty() {
                            c.env.strangers.push((0..126u8).find(|a| *a != ts && !c.env.ring.contains(a)).unwrap());
                        }
                        c.rep.count("C11_environment_adopted_station_from_las");
                    }
                    continue;
                } else {
                    t_pass = last_end;
                    if c.rig.las().contains(&ns) == false {
                        c.viol("C11/S1/removed-too-early", format!("#{} removed from the LAS after only {} unanswered passes", ns, n_silent));
                        return;
                    }
                }
                // successor finally takes it: normal rotation
                let e = c.env_walk_to_ts(holder);
                let who = format!("PS #{}", c.env.ps_of_ts(ts));
                let Some(f) = c.expect_accept(e, "A1", &who) else { return };
                let Some((da, tp)) = c.station_holds(Some(f)) else { return };
                holder = da;
                t_pass = tp;
            }
            // ---- successor heard within the slot: no retry, stays in the LAS ----
            4 | 5 => {
                let other = *rng.pick(&c.env.strangers);
                // "nothing is heard" is about the bus, not about the successor: a telegram of any
                // sender ends the supervision (the successor itself, a stranger, an invalid address)
                let from = match rng.usize(4) {
                    0 => *rng.pick(&c.env.strangers),
                    1 => 126,
                    _ => ns,
                };
                c.rep.count(if from == ns { "C11_S2_heard_from_successor" } else if from == 126 { "C11_S2_heard_from_invalid_address" } else { "C11_S2_heard_from_stranger" });
                let tel = if *dev == 4 {
                    c.rig.status_request(from, other)
                } else {
                    RTel::Data {
                        da: other,
                        sa: from,
                        dsap: None,
                        ssap: None,
                        fc: RFc::Req { fcv: false, fcb: false, code: crate::refcodec::REQ_SDN_LOW },
                        pdu: rng.bytes(3),
                    }
                };
                // start well inside the slot
                let max_gap_bits = (cfg.slot_bits as u64).saturating_sub(40 + 2 * (cfg.period as u64 * cfg.baud.to_rate() / 1_000_000)).max(34);
                let gap = 34 + rng.below(max_gap_bits - 33);
                let e = c.rig.env_tel(&tel, gap);
                // no retry of the pass for (more than) a slot time after that
                // (when it was not the successor who was heard the bus then stays silent: the station
                // has given the token away and must say nothing before its time-out of at least
                // six slot times -- in particular not repeat the pass one slot time later)
                let until = if from == ns { e + cfg.tslot() - cfg.bits(40) } else { e + 2 * cfg.tslot() };
                match c.rig.station_silent_until(until) {
                    Ok(()) => {}
                    Err(f) => {
                        if is_token(&f, ts, ns) {
                            c.viol(if from == ns { "C11/S2/retry-although-successor-heard" } else { "C11/S2/retry-although-bus-not-silent" }, format!("#{} transmitted {}us after the pass to #{} (inside the slot time) but the token was sent again", from, e - t_pass, ns));
                        } else {
                            c.viol("C11/S2/unexpected-transmission", format!("{:?}", f.decoded.map(|t| t.short())));
                        }
                        return;
                    }
                }
                if !c.rig.las().contains(&ns) {
                    c.viol("C11/S2/heard-successor-removed", format!("#{} was heard but is no longer in the LAS {:?}", ns, c.rig.las()));
                    return;
                }
                c.rep.count("C11_S2_heard_successor_checked");
                if from != ns {
                    // nobody holds the token now; the case ends here
                    c.rep.count("C11_S2_other_sender_heard_checked");
                    return;
                }
                let e = c.env_walk_to_ts(holder);
                let who = format!("PS #{}", c.env.ps_of_ts(ts));
                let Some(f) = c.expect_accept(e, "A1", &who) else { return };
                let Some((da, tp)) = c.station_holds(Some(f)) else { return };
                holder = da;
                t_pass = tp;
            }
            // ---- stranger offers the token ----
            6 | 7 | 12 => {
                // the successor takes the token first (so that the supervision phase is over)
                let next = c.env.succ_of(holder, ts);
                let s = *rng.pick(&c.env.strangers);
                if next == ts {
                    // 2-ring: the only other station would pass straight back; let it poll somebody first
                    let rq = c.rig.status_request(holder, s);
                    c.rig.env_tel(&rq, 40);
                    c.rig.run_until(c.rig.now() + cfg.tslot());
                } else {
                    c.rig.env_token(holder, next, 40);
                    holder = next;
                }
                if c.rig.fdl().inspect_token_ring().previous_station() == s {
                    continue;
                }
                let e = c.rig.env_token(s, ts, 40);
                if !c.expect_silence(e + cfg.tslot() + cfg.lat(), "A2/accepted-first-offer-from-non-predecessor", &format!("first token offer {}->{} from a station that is not its predecessor #{}", s, ts, c.rig.fdl().inspect_token_ring().previous_station())) {
                    return;
                }
                c.rep.count("C11_A2_first_offers_declined");
                if *dev == 12 {
                    // a different non-predecessor offers the token right afterwards: also a *first* offer
                    let s2 = c.env.strangers.iter().copied().find(|x| *x != s).unwrap_or(s);
                    if s2 != s && c.rig.fdl().inspect_token_ring().previous_station() != s2 {
                        let e = c.rig.env_token(s2, ts, 40);
                        if !c.expect_silence(e + cfg.tslot() + cfg.lat(), "A2/accepted-first-offer-from-non-predecessor", &format!("first token offer {}->{} right after a declined offer from another station #{}", s2, ts, s)) {
                            return;
                        }
                        c.rep.count("C11_A2_first_offers_declined");
                        c.rep.count("C11_A2_two_different_strangers_declined");
                    }
                }
                if *dev == 7 {
                    let e = c.rig.env_token(s, ts, 34);
                    let Some(f) = c.expect_accept(e, "A2/second-offer", &format!("stranger #{} (second offer)", s)) else { return };
                    c.rep.count("C11_A2_second_offers_accepted");
                    // the stranger is a ring member now; stations between it and TS are gone from TS's view
                    let between = |x: u8| if s < ts { x > s && x < ts } else { x > s || x < ts };
                    c.env.ring.retain(|x| !between(*x));
                    if !c.env.ring.contains(&s) && s < cfg.hsa {
                        c.env.ring.push(s);
                        c.env.ring.sort();
                    } else if s >= cfg.hsa && !c.env.ring.contains(&s) {
                        c.env.ring.push(s);
                        c.env.ring.sort();
                    }
                    c.env.strangers.retain(|x| *x != s);
                    if c.env.strangers.is_empty() {
                        c.env.strangers.push((0..126u8).find(|a| *a != ts && !c.env.ring.contains(a)).unwrap());
                    }
                    let Some((da, tp)) = c.station_holds(Some(f)) else { return };
                    holder = da;
                    t_pass = tp;
                    if !c.env.ring.contains(&holder) && holder != ts {
                        // TS passed to a station the environment no longer plays (its LAS still had it): let it be silent-removed later
                        c.env.ring.push(holder);
                        c.env.ring.sort();
                    }
                    continue;
                }
                let e = c.env_walk_to_ts(holder);
                let who = format!("PS #{}", c.env.ps_of_ts(ts));
                let Some(f) = c.expect_accept(e, "A1", &who) else { return };
                let Some((da, tp)) = c.station_holds(Some(f)) else { return };
                holder = da;
                t_pass = tp;
            }
            // ---- tokens with invalid addresses, status traffic, foreign tokens ----
            8 | 9 | 10 | 11 => {
                let next = c.env.succ_of(holder, ts);
                if next != ts {
                    c.rig.env_token(holder, next, 40);
                    holder = next;
                } else {
                    let s = c.env.strangers[0];
                    let rq = c.rig.status_request(holder, s);
                    c.rig.env_tel(&rq, 40);
                    c.rig.run_until(c.rig.now() + cfg.tslot());
                }
                match *dev {
                    8 => {
                        let bad = *rng.pick(&[126u8, 127, 200, 255]);
                        let e = c.rig.env_token(bad, ts, 40);
                        if !c.expect_silence(e + cfg.tslot() + cfg.lat(), "A2/accepted-token-from-invalid-address", &format!("token {}->{} from an invalid address", bad, ts)) {
                            return;
                        }
                        let e = c.rig.env_token(bad, ts, 40);
                        // a second offer from an address that cannot exist: acceptance would be allowed by the letter of the
                        // rule ("any other station ... second time"); only the LAS must stay sane
                        let _ = c.rig.next_station_tx(e + cfg.tslot());
                        if c.rig.las().iter().any(|a| *a > 125) {
                            c.viol("C11/invalid-address-in-las", format!("LAS {:?}", c.rig.las()));
                            return;
                        }
                        // resynchronise: whatever happened, continue with a normal hand-over from PS
                        if c.rig.fdl().verif_probe().have_token || c.rig.fdl().verif_probe().state == "CheckTokenPass" || c.rig.fdl().verif_probe().state == "PassToken" {
                            // it accepted: let it finish its holding
                            c.rep.count("C11_second_offer_from_invalid_address_accepted");
                            return;
                        }
                    }
                    9 => {
                        let bad = *rng.pick(&[126u8, 127, 200, 255]);
                        c.rig.env_token(holder, bad, 40);
                        c.rig.run_until(c.rig.now() + cfg.bits(40));
                    }
                    10 => {
                        let rq = c.rig.status_request(holder, ts);
                        let e = c.rig.env_tel(&rq, 40);
                        match c.rig.next_station_tx(e + cfg.tslot()) {
                            Some(f) => match &f.decoded {
                                Some(RTel::Data { fc: RFc::Resp { state: 3, status: 0 }, da, .. }) if *da == holder => c.rep.count("C11_status_replies_in_ring"),
                                other => {
                                    c.viol("C11/status-reply-wrong", format!("in ring, status request from #{}: reply {:?}", holder, other.as_ref().map(|t| t.short())));
                                    return;
                                }
                            },
                            None => {
                                if !c.check_panic() {
                                    c.viol("C11/status-reply-missing", "no reply to a status request within the slot time".into());
                                }
                                return;
                            }
                        }
                    }
                    _ => {
                        // a token between two strangers (both valid addresses) somewhere else
                        let (a, b) = (c.env.strangers[0], *c.env.strangers.last().unwrap());
                        c.rig.env_token(a, b, 40);
                    }
                }
                c.rig.settle();
                if !c.rig.fdl().is_in_ring() {
                    c.rep.count("C11_script_ended_early_station_left_ring_after_hostile_tokens");
                    break;
                }
                // hostile tokens may have changed the station's view of its predecessor: hand over
                // from whoever it believes is PS, twice if necessary
                let ps_view = c.rig.fdl().inspect_token_ring().previous_station();
                let ps_env = c.env.ps_of_ts(ts);
                if ps_view != ps_env {
                    c.rep.count("C11_ps_view_changed_by_witnessed_tokens");
                    // first offer from the real predecessor is declined, the second accepted (A2)
                    while c.env.succ_of(holder, ts) != ts {
                        let n = c.env.succ_of(holder, ts);
                        c.rig.env_token(holder, n, 40);
                        holder = n;
                    }
                    let e = c.rig.env_token(holder, ts, 40);
                    if !c.expect_silence(e + cfg.tslot() + cfg.lat(), "A2/accepted-first-offer-from-non-predecessor", &format!("token {}->{} but its registered predecessor is #{}", holder, ts, ps_view)) {
                        return;
                    }
                    let e = c.rig.env_token(holder, ts, 34);
                    let Some(f) = c.expect_accept(e, "A2/second-offer", &format!("#{} (second offer)", holder)) else { return };
                    c.rep.count("C11_A2_second_offers_accepted");
                    let Some((da, tp)) = c.station_holds(Some(f)) else { return };
                    if da != ts && !c.env.ring.contains(&da) {
                        c.rep.count("C11_script_ended_early_las_changed_by_hostile_tokens");
                        break;
                    }
                    holder = da;
                    t_pass = tp;
                    continue;
                }
                let e = c.env_walk_to_ts(holder);
                let who = format!("PS #{}", ps_env);
                let Some(f) = c.expect_accept(e, "A1", &who) else { return };
                let Some((da, tp)) = c.station_holds(Some(f)) else { return };
                if da != ts && !c.env.ring.contains(&da) {
                    c.rep.count("C11_script_ended_early_las_changed_by_hostile_tokens");
                    break;
                }
                holder = da;
                t_pass = tp;
            }
            // ---- normal rotation ----
            _ => {
                let e = c.env_walk_to_ts(holder);
                let who = format!("PS #{}", c.env.ps_of_ts(ts));
                let Some(f) = c.expect_accept(e, "A1", &who) else { return };
                c.rep.count("C11_A1_acceptances_checked");
                let Some((da, tp)) = c.station_holds(Some(f)) else { return };
                holder = da;
                t_pass = tp;
            }
        }
        if holder != ts && !c.env.ring.contains(&holder) && c.rig.las().contains(&holder) {
            // a station the station learnt from witnessed traffic (e.g. a stranger's token): the
            // environment plays it from now on
            c.env.ring.push(holder);
            c.env.ring.sort();
            c.env.strangers.retain(|x| *x != holder);
            if c.env.strangers.is_empty() {
                c.env.strangers.push((0..126u8).find(|a| *a != ts && !c.env.ring.contains(a)).unwrap());
            }
            c.rep.count("C11_environment_adopted_station_from_las");
        }
        if holder != ts && !c.env.ring.contains(&holder) {
            c.viol("C11/token-passed-to-unknown-station", format!("token passed to #{} which is neither in the environment's ring {:?} nor the station itself (LAS {:?})", holder, c.env.ring, c.rig.las()));
            return;
        }
        let _ = step;
    }
    if c.failed {
        return;
    }
    for b in c.rig.world.breaches() {
        c.rep.count("C11_phy_contract_breach_seen");
        let _ = b;
    }
    if verbose {
        c.rig.dump();
    }
    c.rep.count("C11_scripts_completed");
    for (st, _) in c.rig.states.iter() {
        states.insert(*st);
    }
    if states.len() >= 3 {
        let mut fp = Fp::new();
        fp.s(&c.descr);
        c.rep.nontrivial(fp.get());
    } else {
        c.rep.count("C11_scripts_with_fewer_than_3_fdl_states");
    }
    for s in states {
        c.rep.set("fdl_states_reached", s);
    }
    if idx % 512 < 2 {
        let d = c.descr.clone();
        c.rep.sample(J::obj(vec![("kind", J::s("scripted ring around one station")), ("case", J::s(d))]));
    }
}

pub fn c11(ctx: &mut Ctx) {
    let seed = ctx.seed;
    if let Some(only) = ctx.only.clone() {
        // c11 <idx> <prefix> <script as comma list or '-'> seed <s>
        if only[0] == "c11" {
            let idx: u64 = only[1].parse().unwrap();
            let prefix: u8 = only[2].parse().unwrap();
            let script = if only[3] == "-" { None } else { Some(only[3].split(',').map(|x| x.parse().unwrap()).collect()) };
            let s = only.iter().position(|x| x == "seed").and_then(|k| only.get(k + 1)).and_then(|x| x.parse().ok()).unwrap_or(seed);
            ctx.rep.cur_case = format!("c11 {} {} {} seed {}", idx, prefix, only[3], s);
            c11_case(&mut ctx.rep, s, idx, script, prefix, true);
        }
        return;
    }
    // bounded-systematic: all deviation sequences of depth d from each of the 6 bring-up prefixes
    let depth = match ctx.tier {
        Tier::Quick => 3,
        Tier::Thorough => 4,
        Tier::Miri => 1,
    };
    let n_seq = (N_DEV as u64).pow(depth);
    let mut idx = 0u64;
    for prefix in 0..6u8 {
        for code in 0..n_seq {
            idx += 1;
            if !ctx.mine(idx) {
                continue;
            }
            let mut script = Vec::new();
            let mut cde = code;
            for _ in 0..depth {
                script.push((cde % N_DEV as u64) as u8);
                cde /= N_DEV as u64;
            }
            let s: Vec<String> = script.iter().map(|x| x.to_string()).collect();
            ctx.rep.cur_case = format!("c11 {} {} {} seed {}", idx, prefix, s.join(","), seed);
            c11_case(&mut ctx.rep, seed, idx, Some(script), prefix, false);
            ctx.rep.count("C11_systematic_scripts");
        }
    }
    let n = ctx.n(16_000, 2_000_000, 3);
    for k in 0..n {
        let i = 10_000_000 + ctx.shard + k * ctx.nshards;
        let prefix = (i % 6) as u8;
        ctx.rep.cur_case = format!("c11 {} {} - seed {}", i, prefix, seed);
        c11_case(&mut ctx.rep, seed, i, None, prefix, false);
    }
}
