//! C06 — the ring recovers from lost stations, lost tokens and corrupted traffic.
//!
//! A ring (as in C01/C02) is formed, then 1..3 disturbances are applied: noise windows, per-receiver
//! deafness, single damaged token frames, jammer collisions, station crash targeted at an FDL state
//! (via the probe hook) with or without restart, graceful offline/online cycles, and the cold-start
//! claim race.  Oracle: the last instant at which the ring is *not* converged (C02 predicate over
//! the stations that are still online) lies before Tf + B_rec, at least 30 proper rotations follow
//! it, and inside that recovered window there is no collision, no second token holder and no
//! silence longer than the largest token-lost time-out.

use crate::eng_ring::*;
use crate::refcodec::RTel;
use crate::sim::*;
use crate::util::*;
use crate::vbus::*;
use crate::{Ctx, Tier};

#[derive(Clone, Debug)]
pub enum Disturbance {
    /// every telegram in [from, from+len] is damaged with probability p/100
    Noise { from: Us, len: Us, p: u64, kind: u8 },
    /// station `st` does not receive anything in the window
    Deaf { st: usize, from: Us, len: Us },
    /// the `k`-th token frame after `from` is damaged (kind: 0 drop, 1 bit flip, 2 truncate) for everybody or only for its addressee
    TokenFault { from: Us, k: u32, kind: u8, only_addressee: bool },
    /// garbage bursts from a jammer
    Jam { from: Us, bursts: u32, spacing: Us, len: usize },
    /// crash station `st` the `nth` time it is observed in (state, sub) after `from`; restart after `restart_after` (None = gone for good)
    Crash { st: usize, state: &'static str, sub: u8, nth: u32, from: Us, restart_after: Option<Us> },
    /// set_offline at `at`, set_online again after `back_after`
    OfflineCycle { st: usize, at: Us, back_after: Option<Us> },
}

const STATES: [(&str, u8); 14] = [
    ("ListenToken", 0),
    ("ActiveIdle", 0),
    ("UseToken", 0),
    ("UseToken", 1),
    ("ClaimToken", 1),
    ("ClaimToken", 2),
    ("ClaimToken", 3),
    ("ClaimToken", 4),
    ("AwaitDataResponse", 0),
    ("PassToken", 1),
    ("CheckTokenPass", 1),
    ("CheckTokenPass", 2),
    ("CheckTokenPass", 3),
    ("AwaitStatusResponse", 0),
];

fn gen_disturbances(rng: &mut Rng, cfg: &RingCfg, t_start: Us, rot: Us) -> Vec<Disturbance> {
    let n = 1 + rng.usize(3);
    let mut v = Vec::new();
    let mut t = t_start;
    let nst = cfg.stations.len();
    let mut crashed: Vec<usize> = Vec::new();
    for _ in 0..n {
        t += rng.below((rot * 10).max(1) as u64) as Us;
        let alive: Vec<usize> = (0..nst).filter(|i| !crashed.contains(i)).collect();
        let d = match rng.usize(10) {
            0 | 1 => Disturbance::Noise {
                from: t,
                len: rng.below((rot * 8).max(1) as u64) as Us + 1,
                p: *rng.pick(&[10u64, 30, 60, 100]),
                kind: rng.usize(4) as u8,
            },
            2 => Disturbance::Deaf {
                st: *rng.pick(&alive),
                from: t,
                len: rng.below((rot * 12).max(1) as u64) as Us + 1,
            },
            3 | 4 => Disturbance::TokenFault {
                from: t,
                k: rng.below(8) as u32,
                kind: rng.usize(3) as u8,
                only_addressee: rng.bool(),
            },
            5 => Disturbance::Jam {
                from: t,
                bursts: 1 + rng.below(6) as u32,
                spacing: cfg.bits(20 + rng.below(400)),
                len: 1 + rng.usize(12),
            },
            6 | 7 | 8 => {
                // keep at least two stations alive for good
                let st = *rng.pick(&alive);
                let gone_for_good = alive.len() > 2 && rng.chance(1, 3);
                if gone_for_good {
                    crashed.push(st);
                }
                let (state, sub) = *rng.pick(&STATES);
                Disturbance::Crash {
                    st,
                    state,
                    sub,
                    nth: 1 + rng.below(3) as u32,
                    from: t,
                    restart_after: if gone_for_good { None } else { Some(rng.below((rot * 30).max(1) as u64) as Us + 1) },
                }
            }
            _ => {
                let st = *rng.pick(&alive);
                let gone_for_good = alive.len() > 2 && rng.chance(1, 4);
                if gone_for_good {
                    crashed.push(st);
                }
                Disturbance::OfflineCycle {
                    st,
                    at: t,
                    back_after: if gone_for_good { None } else { Some(rng.below((rot * 30).max(1) as u64) as Us) },
                }
            }
        };
        v.push(d);
    }
    v
}

fn dist_kind(d: &Disturbance) -> &'static str {
    match d {
        Disturbance::Noise { .. } => "noise-window",
        Disturbance::Deaf { .. } => "deaf-receiver",
        Disturbance::TokenFault { kind: 0, .. } => "token-dropped",
        Disturbance::TokenFault { kind: 1, .. } => "token-bitflip",
        Disturbance::TokenFault { .. } => "token-truncated",
        Disturbance::Jam { .. } => "jammer-collisions",
        Disturbance::Crash { restart_after: Some(_), .. } => "crash-restart",
        Disturbance::Crash { .. } => "crash-gone",
        Disturbance::OfflineCycle { back_after: Some(_), .. } => "offline-online",
        Disturbance::OfflineCycle { .. } => "offline-gone",
    }
}

const ACT_BASE: u32 = 1000;

fn handle_action(run: &mut RingRun, id: u32) {
    if id >= ACT_BASE + 500 {
        let st = (id - ACT_BASE - 500) as usize;
        run.world.restart(st);
        run.online[st] = true;
    } else if id >= ACT_BASE {
        let st = ((id - ACT_BASE) / 2) as usize;
        if (id - ACT_BASE) % 2 == 0 {
            run.world.stations[st].fdl.set_offline();
            run.online[st] = false;
        } else {
            run.world.set_online(st);
            run.online[st] = true;
        }
    }
}

pub fn recover_case(rep: &mut Report, seed: u64, idx: u64, verbose: bool) {
    let mut rng = Rng::derive(seed, "recover", idx);
    let mut cfg = gen_ring_cfg(&mut rng, false, true);
    rep.evaluations += 1;
    rep.cur_case = format!("recover {} seed {}", idx, seed);
    let race = rng.chance(1, 8);
    if race {
        // cold-start claim race: the silence time-outs of the two lowest stations expire together
        cfg.start_mode = "claim-race";
        let tslot = cfg.tslot();
        let base = 40 * tslot;
        let a0 = cfg.stations[0].addr as i64;
        for s in cfg.stations.iter_mut() {
            // timeout = (6 + 2a) Tslot from the first poll after online
            s.online_at = base - 2 * (s.addr as i64 - a0) * tslot + (rng.below(5) as i64 - 2) * (s.period / 2);
            if s.online_at < 0 {
                s.online_at = rng.below(tslot as u64) as Us;
            }
        }
    }
    let mut run = build_ring(&cfg, rng.next_u64());
    let rot = cfg.stations.len() as i64 * cfg.t_visit();
    // phase 1: let the ring form (not judged here), unless the disturbances hit the formation phase
    let during_formation = rng.chance(1, 4);
    let t_form_end = cfg.stations.iter().map(|s| s.online_at).max().unwrap();
    let t_dist_start = if during_formation {
        rng.below((t_form_end + rot * 20).max(1) as u64) as Us
    } else {
        let mut tmp = Report::default();
        let r = converge(&mut tmp, &mut run, "C06", t_form_end, cfg.b_conv(), 0, 3);
        if run.world.any_panic().is_some() || r.and_then(|r| r.converged_at).is_none() {
            // formation problems are C02's business; nothing to disturb
            rep.count("C06_runs_skipped_ring_did_not_form");
            if let Some((_, p)) = run.world.any_panic() {
                rep.count(&format!("C06_panic_seen_{}", p.class()));
            }
            return;
        }
        run.world.now + rng.below((rot * 5).max(1) as u64) as Us
    };
    let dists = if race && during_formation { vec![] } else { gen_disturbances(&mut rng, &cfg, t_dist_start, rot) };
    if verbose {
        eprintln!("{}\ndisturbances: {:?}", cfg.json().render(), dists);
    }
    // install the bus fault function
    let plan = dists.clone();
    let station_ports: Vec<usize> = run.world.stations.iter().map(|s| s.phy.port).collect();
    let port_of_addr: Vec<(u8, usize)> = run.world.stations.iter().map(|s| (s.addr, s.phy.port)).collect();
    let mut frng = Rng::new(rng.next_u64());
    let mut token_counters: Vec<u32> = vec![0; plan.len()];
    run.world.bus.borrow_mut().fault_fn = Some(Box::new(move |tx: &TxRec, now: Us| {
        let mut dec = FaultDecision::none();
        for (di, d) in plan.iter().enumerate() {
            match d {
                Disturbance::Noise { from, len, p, kind } if now >= *from && now <= from + len => {
                    if frng.below(100) < *p {
                        dec.all = match kind {
                            0 => Delivery::Drop,
                            1 => Delivery::Corrupt {
                                pos: frng.usize(tx.bytes.len()),
                                xor: 1 << frng.usize(8),
                            },
                            2 => Delivery::Truncate { n: frng.usize(tx.bytes.len()) },
                            _ => Delivery::Garble,
                        };
                    }
                }
                Disturbance::Deaf { st, from, len } if now >= *from && now <= from + len => {
                    dec.per_port.push((station_ports[*st], Delivery::Drop));
                }
                Disturbance::TokenFault { from, k, kind, only_addressee } if now >= *from => {
                    if let Some(RTel::Token { da, .. }) = &tx.decoded {
                        if token_counters[di] == *k {
                            let del = match kind {
                                0 => Delivery::Drop,
                                1 => Delivery::Corrupt {
                                    pos: frng.usize(3),
                                    xor: 1 << frng.usize(8),
                                },
                                _ => Delivery::Truncate { n: 1 + frng.usize(2) },
                            };
                            if *only_addressee {
                                if let Some((_, p)) = port_of_addr.iter().find(|(a, _)| a == da) {
                                    dec.per_port.push((*p, del));
                                }
                            } else {
                                dec.all = del;
                            }
                        }
                        token_counters[di] += 1;
                    }
                }
                _ => {}
            }
        }
        dec
    }));
    // jammer + offline cycles are scheduled actions; crashes are probe-triggered
    let jam_port = run.world.new_device_port("jammer");
    let mut tf: Us = t_dist_start;
    let mut crash_watch: Vec<(usize, &'static str, u8, u32, Us, Option<Us>, bool)> = Vec::new();
    for (di, d) in dists.iter().enumerate() {
        match d {
            Disturbance::Noise { from, len, .. } => tf = tf.max(from + len),
            Disturbance::Deaf { from, len, .. } => tf = tf.max(from + len),
            Disturbance::TokenFault { from, k, .. } => tf = tf.max(*from + (*k as i64 + 3) * rot),
            Disturbance::Jam { from, bursts, spacing, len } => {
                for b in 0..*bursts {
                    let at = from + *spacing * b as i64;
                    let bytes = Rng::new(seed ^ (di as u64) << 8 ^ b as u64).bytes(*len);
                    run.world.schedule_device_tx(at, jam_port, bytes);
                    tf = tf.max(at + cfg.bits(11 * *len as u64));
                }
            }
            Disturbance::Crash { st, state, sub, nth, from, restart_after } => {
                crash_watch.push((*st, state, *sub, *nth, *from, *restart_after, false));
            }
            Disturbance::OfflineCycle { st, at, back_after } => {
                run.world.schedule_action(*at, ACT_BASE + 2 * (*st as u32));
                tf = tf.max(*at);
                if let Some(b) = back_after {
                    run.world.schedule_action(at + b, ACT_BASE + 2 * (*st as u32) + 1);
                    tf = tf.max(at + b);
                }
            }
        }
    }
    // phase 2: run through the disturbances
    let mut crash_points: Vec<String> = Vec::new();
    let t_watch_end = tf + rot * 200;
    let mut guard = 0u64;
    loop {
        guard += 1;
        let pending_crash = crash_watch.iter().any(|c| !c.6);
        let horizon = if pending_crash { t_watch_end } else { tf + 1 };
        if run.world.now >= horizon {
            break;
        }
        // single-step so that probe-triggered crashes hit exactly
        let Some(t) = run.world.next_time() else { break };
        if t > horizon {
            break;
        }
        if let Some(id) = run.run_until(t) {
            handle_action(&mut run, id);
        }
        if run.world.any_panic().is_some() {
            break;
        }
        let now = run.world.now;
        for c in crash_watch.iter_mut() {
            if c.6 || now < c.4 || !run.world.stations[c.0].running {
                continue;
            }
            let p = run.world.stations[c.0].fdl.verif_probe();
            if p.state == c.1 && p.sub == c.2 && run.world.stations[c.0].last_poll == now {
                c.3 -= 1;
                if c.3 == 0 {
                    c.6 = true;
                    run.world.crash(c.0);
                    crash_points.push(format!("{}/{}", c.1, c.2));
                    tf = tf.max(now);
                    if let Some(r) = c.5 {
                        run.world.schedule_action(now + r, ACT_BASE + 500 + c.0 as u32);
                        tf = tf.max(now + r);
                    } else {
                        run.online[c.0] = false;
                    }
                }
            }
        }
        if guard > 50_000_000 {
            break;
        }
    }
    // handle restarts scheduled as actions ACT_BASE+500+st (they come back through run_until)
    // (continue running until all restarts are done)
    let t_restart_end = tf;
    while run.world.now <= t_restart_end {
        let Some(t) = run.world.next_time() else { break };
        if t > t_restart_end + 1 {
            break;
        }
        if let Some(id) = run.run_until(t) {
            handle_action(&mut run, id);
        }
        if run.world.any_panic().is_some() {
            break;
        }
    }
    // crashes that never triggered (state not reached in time) do not count as disturbances
    let untriggered = crash_watch.iter().filter(|c| !c.6).count();
    if untriggered > 0 {
        rep.add("C06_crash_points_not_reached", untriggered as u64);
    }
    // faults are over
    run.world.bus.borrow_mut().fault_fn = None;
    let tf = tf.max(run.world.now);
    if let Some((i, p)) = run.world.any_panic() {
        // C05's business, but the ring cannot recover with a dead station: count, do not judge
        rep.count(&format!("C06_panic_seen_{}", p.class()));
        let _ = i;
        return;
    }
    let withdrew = (0..run.online.len()).filter(|i| run.online[*i] && run.world.stations[*i].running && !run.is_up(*i)).count();
    if withdrew > 0 {
        rep.add("C06_stations_that_withdrew_after_perceived_address_collision", withdrew as u64);
    }
    let alive = run.online_addrs();
    if alive.is_empty() {
        rep.count("C06_runs_skipped_nobody_left");
        return;
    }
    // phase 3: bounded recovery
    let max_timeout = alive.iter().map(|a| cfg.token_lost_timeout(*a)).max().unwrap();
    let b_rec = max_timeout + 3 * (cfg.bits(33) + cfg.tslot() + cfg.lat()) + cfg.b_conv();
    let frames_before = run.world.bus.borrow().trace.len();
    let collisions_before = run.world.bus.borrow().collisions;
    let res = converge(rep, &mut run, "C06", tf, b_rec, tf + b_rec, 30);
    if verbose {
        dump_trace(&run, 300);
    }
    let Some(res) = res else { return };
    let Some(c) = res.converged_at else { return };
    // inside the recovered window
    {
        let bus = run.world.bus.borrow();
        if let Some(f) = bus.trace.iter().find(|f| f.start > c && f.collided) {
            rep.violation("C06/collision-after-recovery", format!("collision at {}us, ring recovered at {}us ({} ; {:?})", f.start, c, cfg.json().render(), dists));
            return;
        }
        let mut prev_end = c;
        let limit = max_timeout + 2 * cfg.lat();
        for f in bus.trace.iter().filter(|f| f.start > c) {
            if f.start - prev_end > limit {
                rep.violation("C06/silent-bus-after-recovery", format!("bus silent for {}us at {}us (limit {}us)", f.start - prev_end, f.start, limit));
                return;
            }
            prev_end = prev_end.max(f.end);
        }
        // silence between the end of the disturbances and recovery: never longer than the largest time-out
        let mut prev_end = tf;
        for f in bus.trace.iter().filter(|f| f.start > tf) {
            let gap = f.start - prev_end;
            rep.max("C06_max_silence_over_largest_timeout", gap as f64 / max_timeout as f64);
            if gap > limit + cfg.tslot() {
                rep.violation("C06/silent-bus-during-recovery", format!("bus silent for {}us at {}us although the largest token-lost time-out is {}us ({} ; {:?})", gap, f.start, max_timeout, cfg.json().render(), dists));
                return;
            }
            prev_end = prev_end.max(f.end);
        }
    }
    if let Some((t, a, b)) = run.double_holders.iter().find(|(t, _, _)| *t > c) {
        rep.violation("C06/two-token-holders-after-recovery", format!("#{} and #{} both hold the token at {}us, ring recovered at {}us", a, b, t, c));
        return;
    }
    let ratio = (c - res.t0).max(0) as f64 / res.bound as f64;
    rep.max("C06_max_time_to_recover_over_bound", ratio);
    if ratio > 0.4 {
        rep.set("slow_recoveries", format!("recover {} seed {} ratio {:.2}", idx, seed, ratio));
    }
    rep.count("C06_runs_recovered");
    for d in &dists {
        rep.count(&format!("C06_disturbance_{}", dist_kind(d)));
    }
    if race {
        rep.count("C06_disturbance_claim-race");
    }
    for cp in &crash_points {
        rep.set("crash_points_covered", cp.clone());
        rep.count("C06_crashes_triggered");
    }
    let changed_flow = {
        // the disturbance must have changed the token flow: a retry, claim or LAS change after it
        let bus = run.world.bus.borrow();
        let collisions = bus.collisions > collisions_before;
        let mut retry_or_claim = false;
        let mut last: Option<(u8, u8)> = None;
        for f in bus.trace.iter().filter(|f| f.start >= t_dist_start) {
            if let Some(RTel::Token { da, sa }) = &f.decoded {
                if da == sa || last == Some((*sa, *da)) {
                    retry_or_claim = true;
                    break;
                }
                last = Some((*sa, *da));
            }
        }
        let las_changed = run.snaps.iter().any(|s| s.iter().any(|(t, _)| *t >= t_dist_start));
        let _ = frames_before;
        collisions || retry_or_claim || las_changed
    };
    if changed_flow {
        let mut fp = Fp::new();
        for d in &dists {
            fp.s(dist_kind(d));
        }
        for cp in &crash_points {
            fp.s(cp);
        }
        fp.u(cfg.stations.len() as u64).s(cfg.class).u(cfg.baud.to_rate()).u(idx);
        rep.nontrivial(fp.get());
        rep.count("C06_runs_where_disturbance_changed_token_flow");
    }
    if idx % 64 < 2 {
        rep.sample(J::obj(vec![
            ("kind", J::s("ring + disturbances, bounded recovery")),
            ("config", cfg.json()),
            ("disturbances", J::A(dists.iter().map(|d| J::s(format!("{:?}", d))).collect())),
            ("crash_points", J::A(crash_points.iter().map(|c| J::s(c.clone())).collect())),
            ("recovered_after_us", J::I(c - res.t0)),
            ("bound_us", J::I(res.bound)),
        ]));
    }
}

pub fn c06(ctx: &mut Ctx) {
    let seed = ctx.seed;
    if let Some(only) = ctx.only.clone() {
        if only[0] == "recover" {
            let idx: u64 = only[1].parse().unwrap();
            let s = if only.len() >= 4 { only[3].parse().unwrap_or(seed) } else { seed };
            recover_case(&mut ctx.rep, s, idx, true);
        }
        return;
    }
    let n = ctx.n(3000, 300_000, 2);
    for k in 0..n {
        recover_case(&mut ctx.rep, seed, ctx.shard + k * ctx.nshards, false);
    }
    let _ = Tier::Quick;
}
