//! C09 (encode/decode inverse) and C10 (decoder total, prefix-consistent, no mis-accept):
//! differential monitors of `profirust::fdl::Telegram{,Tx}` against `refcodec`.

use crate::refcodec::{self as rc, Dec, RFc, RTel};
use crate::util::*;
use crate::{Ctx, Tier};
use profirust::fdl;

// ------------------------------------------------------------------------------------------------
// C09
// ------------------------------------------------------------------------------------------------

#[derive(Clone, Debug)]
struct EncCase {
    da: u8,
    sa: u8,
    dsap: Option<u8>,
    ssap: Option<u8>,
    fc: fdl::FunctionCode,
    pdu: Vec<u8>,
}

impl EncCase {
    fn descr(&self) -> String {
        format!(
            "enc {} {} {} {} {:02x} {}",
            self.da,
            self.sa,
            self.dsap.map(|d| d as i32).unwrap_or(-1),
            self.ssap.map(|d| d as i32).unwrap_or(-1),
            rc::fc_from_lib(&self.fc).to_byte(),
            if self.pdu.is_empty() { "-".to_string() } else { hex(&self.pdu) }
        )
    }
    fn json(&self) -> J {
        J::obj(vec![
            ("kind", J::s("data telegram round-trip")),
            ("da", J::U(self.da as u64)),
            ("sa", J::U(self.sa as u64)),
            ("dsap", self.dsap.map(|d| J::U(d as u64)).unwrap_or(J::Null)),
            ("ssap", self.ssap.map(|d| J::U(d as u64)).unwrap_or(J::Null)),
            ("fc", J::s(format!("{:?}", self.fc))),
            ("pdu_len", J::U(self.pdu.len() as u64)),
        ])
    }
}

fn lib_fc_from_byte(b: u8) -> Option<fdl::FunctionCode> {
    rc::all_lib_fcs()
        .into_iter()
        .find(|fc| rc::fc_from_lib(fc).to_byte() == b)
}

/// The oracle for one data telegram.
fn check_enc(rep: &mut Report, c: &EncCase, full_prefix_check: bool) {
    rep.evaluations += 1;
    rep.cur_case = c.descr();
    let reference = RTel::Data {
        da: c.da,
        sa: c.sa,
        dsap: c.dsap,
        ssap: c.ssap,
        fc: rc::fc_from_lib(&c.fc),
        pdu: c.pdu.clone(),
    };
    let expected = rc::encode(&reference).expect("reference encodes");
    for sentinel in [0xAAu8, 0x55] {
        let mut buf = vec![sentinel; 300];
        let res = catch(|| {
            let tx = fdl::TelegramTx::new(&mut buf);
            tx.send_data_telegram(
                fdl::DataTelegramHeader {
                    da: c.da,
                    sa: c.sa,
                    dsap: c.dsap,
                    ssap: c.ssap,
                    fc: c.fc,
                },
                c.pdu.len(),
                |b| b.copy_from_slice(&c.pdu),
            )
        });
        let res = match res {
            Ok(r) => r,
            Err(p) => {
                rep.violation(format!("C09/encode-panic/{}", p.class()), format!("{} panicked: {}", c.descr(), p.message));
                return;
            }
        };
        let n = res.bytes_sent();
        if n != expected.len() {
            rep.violation("C09/reported-length", format!("{}: reported {} bytes, frame has {}", c.descr(), n, expected.len()));
            return;
        }
        if buf[..n] != expected[..] {
            let pos = (0..n).find(|i| buf[*i] != expected[*i]).unwrap();
            let class = if pos == 0 {
                "start-delimiter"
            } else if pos + 2 == n {
                "checksum"
            } else if pos + 1 == n {
                "end-delimiter"
            } else {
                "body"
            };
            rep.violation(
                format!("C09/encoding/{}", class),
                format!("{}: byte {} is {:02x}, frame format says {:02x} (got {} want {})", c.descr(), pos, buf[pos], expected[pos], hex(&buf[..n.min(24)]), hex(&expected[..n.min(24)])),
            );
            return;
        }
        if let Some(k) = (n..300).find(|i| buf[*i] != sentinel) {
            rep.violation("C09/wrote-beyond-length", format!("{}: byte {} beyond the reported length {} was modified", c.descr(), k, n));
            return;
        }
        // decode back
        let frame = &buf[..n];
        let dec = catch(|| fdl::Telegram::deserialize(frame).map(|r| r.map(|(t, l)| (rc::from_lib(&t), lib_fc_of(&t), l))));
        match dec {
            Err(p) => {
                rep.violation(format!("C09/decode-panic/{}", p.class()), format!("{}: {}", c.descr(), p.message));
                return;
            }
            Ok(Some(Ok((t, fc, l)))) => {
                if t != reference || fc != Some(c.fc) {
                    rep.violation("C09/roundtrip-differs", format!("{}: decoded back as {}", c.descr(), t.short()));
                    return;
                }
                if l != n {
                    rep.violation("C09/roundtrip-consumed", format!("{}: decode consumed {} of {} bytes", c.descr(), l, n));
                    return;
                }
            }
            Ok(other) => {
                rep.violation("C09/roundtrip-not-accepted", format!("{}: own encoding not decoded: {:?}", c.descr(), other.map(|r| r.is_ok())));
                return;
            }
        }
        // with trailing bytes: consumes exactly the frame
        let mut longer = frame.to_vec();
        longer.extend_from_slice(&[0xDC, 0x01, 0x02, 0x99]);
        match catch(|| fdl::Telegram::deserialize(&longer).map(|r| r.map(|(t, l)| (rc::from_lib(&t), l)))) {
            Ok(Some(Ok((t, l)))) if t == reference && l == n => {}
            other => {
                rep.violation("C09/roundtrip-with-suffix", format!("{}: with trailing bytes got {:?}", c.descr(), other.map(|o| o.map(|r| r.map(|(t, l)| (t.short(), l))))));
                return;
            }
        }
        // proper prefixes ask for more data
        let ks: Vec<usize> = if full_prefix_check {
            (0..n).collect()
        } else {
            vec![0, 1, 3, 4, 5, n / 2, n - 2, n - 1].into_iter().filter(|k| *k < n).collect()
        };
        for k in ks {
            match catch(|| fdl::Telegram::deserialize(&frame[..k]).map(|r| r.is_ok())) {
                Ok(None) => {}
                other => {
                    rep.violation("C09/prefix-not-needmore", format!("{}: prefix of {} bytes gave {:?}", c.descr(), k, other.ok()));
                    return;
                }
            }
        }
        if !full_prefix_check {
            break;
        }
    }
    rep.count("data_telegrams_roundtripped");
    rep.count(match expected[0] {
        rc::SD1 => "frames_sd1",
        rc::SD2 => "frames_sd2",
        rc::SD3 => "frames_sd3",
        _ => "frames_other",
    });
}

fn lib_fc_of(t: &fdl::Telegram) -> Option<fdl::FunctionCode> {
    match t {
        fdl::Telegram::Data(d) => Some(d.h.fc),
        _ => None,
    }
}

fn check_token(rep: &mut Report, da: u8, sa: u8) {
    rep.evaluations += 1;
    rep.cur_case = format!("tok {} {}", da, sa);
    let mut buf = vec![0xAAu8; 16];
    let r = catch(|| fdl::TelegramTx::new(&mut buf).send_token_telegram(da, sa).bytes_sent());
    match r {
        Ok(3) if buf[..3] == [rc::SD4, da, sa] && buf[3..].iter().all(|b| *b == 0xAA) => {}
        other => {
            rep.violation("C09/token-encoding", format!("token {}->{}: {:?} {}", sa, da, other.ok(), hex(&buf[..4])));
            return;
        }
    }
    match catch(|| fdl::Telegram::deserialize(&buf[..3]).map(|r| r.map(|(t, l)| (rc::from_lib(&t), l)))) {
        Ok(Some(Ok((RTel::Token { da: d, sa: s }, 3)))) if d == da && s == sa => {}
        other => {
            rep.violation("C09/token-roundtrip", format!("token {}->{}: {:?}", sa, da, other.ok().map(|o| o.map(|r| r.map(|(t, l)| (t.short(), l))))));
            return;
        }
    }
    for k in 0..3 {
        if !matches!(catch(|| fdl::Telegram::deserialize(&buf[..k]).is_none()), Ok(true)) {
            rep.violation("C09/prefix-not-needmore", format!("token prefix {}", k));
        }
    }
    rep.count("tokens_roundtripped");
}

pub fn c09(ctx: &mut Ctx) {
    let fcs = rc::all_lib_fcs();
    if let Some(only) = ctx.only.clone() {
        match only[0].as_str() {
            "enc" => {
                let p = |s: &str| -> Option<u8> {
                    let v: i32 = s.parse().unwrap();
                    if v < 0 { None } else { Some(v as u8) }
                };
                let c = EncCase {
                    da: only[1].parse().unwrap(),
                    sa: only[2].parse().unwrap(),
                    dsap: p(&only[3]),
                    ssap: p(&only[4]),
                    fc: lib_fc_from_byte(u8::from_str_radix(&only[5], 16).unwrap()).unwrap(),
                    pdu: if only[6] == "-" { vec![] } else { unhex(&only[6]) },
                };
                check_enc(&mut ctx.rep, &c, true);
            }
            "tok" => check_token(&mut ctx.rep, only[1].parse().unwrap(), only[2].parse().unwrap()),
            "fcbyte" => check_fc_bytes(&mut ctx.rep),
            _ => {}
        }
        return;
    }
    let mut rng = Rng::derive(ctx.seed, "C09", ctx.shard);
    let thorough = ctx.tier == Tier::Thorough;
    let sap_opts = |i: usize, rng: &mut Rng| -> (Option<u8>, Option<u8>) {
        match i {
            0 => (None, None),
            1 => (Some(rng.u8()), None),
            2 => (None, Some(rng.u8())),
            _ => (Some(rng.u8()), Some(rng.u8())),
        }
    };
    let max_pdu = |nsap: usize| 246 - nsap;

    // (a) all (DA, SA) x SAP presence x lengths {0, 8, 20}: exhaustive over the address dimension
    let mut idx = 0u64;
    let lens_a: &[usize] = if ctx.tier == Tier::Miri { &[0] } else { &[0, 8, 20] };
    let addr_step = if ctx.tier == Tier::Miri { 17 } else { 1 };
    for da in (0..128u16).step_by(addr_step) {
        for sa in (0..128u16).step_by(addr_step) {
            idx += 1;
            if !ctx.mine(idx) || ctx.over_budget() {
                continue;
            }
            for sapi in 0..4 {
                for &len in lens_a {
                    let (dsap, ssap) = sap_opts(sapi, &mut rng);
                    let c = EncCase {
                        da: da as u8,
                        sa: sa as u8,
                        dsap,
                        ssap,
                        fc: *rng.pick(&fcs),
                        pdu: rng.bytes(len),
                    };
                    check_enc(&mut ctx.rep, &c, false);
                    ctx.rep.nontrivial_enum();
                    if da == 5 && sa == 127 && sapi == 3 && len == 8 {
                        ctx.rep.sample(c.json());
                    }
                }
            }
        }
    }
    // (b) all lengths x SAP presence x all 84 FCs x edge address pairs
    let edge_pairs: [(u8, u8); 8] = [(0, 0), (0, 127), (127, 0), (127, 127), (1, 2), (126, 125), (64, 63), (5, 5)];
    let len_step = match ctx.tier {
        Tier::Miri => 61,
        Tier::Quick => 1,
        Tier::Thorough => 1,
    };
    for sapi in 0..4usize {
        let nsap = [0, 1, 1, 2][sapi];
        for len in (0..=max_pdu(nsap)).step_by(len_step) {
            idx += 1;
            if !ctx.mine(idx) || ctx.over_budget() {
                continue;
            }
            for (fi, fc) in fcs.iter().enumerate() {
                // quick: one address pair per (len, fc) in rotation; thorough: all 8
                let pairs: Vec<(u8, u8)> = if thorough {
                    edge_pairs.to_vec()
                } else {
                    vec![edge_pairs[(len + fi) % 8]]
                };
                for (da, sa) in pairs {
                    let (dsap, ssap) = sap_opts(sapi, &mut rng);
                    let c = EncCase {
                        da,
                        sa,
                        dsap,
                        ssap,
                        fc: *fc,
                        pdu: rng.bytes(len),
                    };
                    check_enc(&mut ctx.rep, &c, len % 16 == 0 && fi % 7 == 0);
                    ctx.rep.nontrivial_enum();
                    if len == max_pdu(nsap) && fi == 0 {
                        ctx.rep.sample(c.json());
                    }
                }
            }
        }
    }
    // (c) all SAP values
    if ctx.tier != Tier::Miri {
        for v in 0..=255u8 {
            idx += 1;
            if !ctx.mine(idx) {
                continue;
            }
            for (dsap, ssap) in [(Some(v), None), (None, Some(v)), (Some(v), Some(!v)), (Some(v), Some(v))] {
                let c = EncCase {
                    da: rng.u8() & 0x7f,
                    sa: rng.u8() & 0x7f,
                    dsap,
                    ssap,
                    fc: *rng.pick(&fcs),
                    pdu: rng.bytes(rng.clone().usize(30)),
                };
                check_enc(&mut ctx.rep, &c, false);
                ctx.rep.nontrivial_enum();
            }
        }
    }
    // (d) tokens: all (DA, SA) byte pairs
    let tok_step = if ctx.tier == Tier::Miri { 37 } else { 1 };
    for da in (0..=255u16).step_by(tok_step) {
        idx += 1;
        if !ctx.mine(idx) {
            continue;
        }
        for sa in (0..=255u16).step_by(tok_step) {
            check_token(&mut ctx.rep, da as u8, sa as u8);
            ctx.rep.nontrivial_enum();
        }
    }
    // (e) short confirmation and the function-code byte table (shard 0 only)
    if ctx.shard == 0 {
        ctx.rep.evaluations += 1;
        ctx.rep.cur_case = "sc".into();
        let mut buf = [0xAAu8; 8];
        match catch(|| fdl::TelegramTx::new(&mut buf).send_short_confirmation().bytes_sent()) {
            Ok(1) if buf[0] == rc::SC && buf[1] == 0xAA => {
                match fdl::Telegram::deserialize(&buf[..1]) {
                    Some(Ok((fdl::Telegram::ShortConfirmation(_), 1))) => ctx.rep.count("sc_roundtripped"),
                    _ => ctx.rep.violation("C09/sc-roundtrip", "SC does not decode back"),
                }
            }
            other => ctx.rep.violation("C09/sc-encoding", format!("{:?} {}", other.ok(), hex(&buf))),
        }
        ctx.rep.nontrivial_enum();
        check_fc_bytes(&mut ctx.rep);
        ctx.rep.sample(J::obj(vec![("kind", J::s("function code byte table")), ("bytes", J::s("0x00..=0xff"))]));
    }
    // (f) random telegrams
    let n = ctx.n(400_000, 30_000_000, 300);
    for k in 0..n {
        if ctx.over_budget() {
            break;
        }
        let sapi = rng.usize(4);
        let nsap = [0, 1, 1, 2][sapi];
        let len = match rng.usize(6) {
            0 => 0,
            1 => 8 - nsap.min(8),
            2 => max_pdu(nsap),
            3 => rng.usize(12),
            _ => rng.usize(max_pdu(nsap) + 1),
        };
        let (dsap, ssap) = sap_opts(sapi, &mut rng);
        let c = EncCase {
            da: rng.u8() & 0x7f,
            sa: rng.u8() & 0x7f,
            dsap,
            ssap,
            fc: *rng.pick(&fcs),
            pdu: rng.bytes(len),
        };
        check_enc(&mut ctx.rep, &c, k % 64 == 0);
        let mut fp = Fp::new();
        fp.s(&c.descr());
        ctx.rep.nontrivial(fp.get());
        if k == 0 {
            ctx.rep.sample(c.json());
        }
    }
}

fn check_fc_bytes(rep: &mut Report) {
    for b in 0..=255u8 {
        rep.evaluations += 1;
        rep.cur_case = "fcbyte".into();
        let lib = fdl::FunctionCode::from_byte(b);
        let reference = RFc::from_byte(b);
        match (&lib, &reference) {
            (Ok(fc), Some(r)) => {
                if rc::fc_from_lib(fc) != *r {
                    rep.violation("C09/fc-decode", format!("FC byte {:02x} decodes to {:?}, frame format says {:?}", b, fc, r));
                    continue;
                }
                let back = fc.to_byte();
                let want = if r.is_req() { b } else { b & 0x7f };
                if back != want {
                    rep.violation("C09/fc-roundtrip", format!("FC byte {:02x} -> {:?} -> {:02x}", b, fc, back));
                }
                if fdl::FunctionCode::from_byte(back).ok() != Some(*fc) {
                    rep.violation("C09/fc-roundtrip", format!("FC {:?} -> {:02x} does not decode back", fc, back));
                }
                rep.count("fc_bytes_valid");
            }
            (Err(_), None) => rep.count("fc_bytes_invalid"),
            _ => rep.violation("C09/fc-validity", format!("FC byte {:02x}: library {:?}, frame format {:?}", b, lib, reference)),
        }
        rep.nontrivial_enum();
    }
    for fc in rc::all_lib_fcs() {
        rep.evaluations += 1;
        let b = fc.to_byte();
        if b != rc::fc_from_lib(&fc).to_byte() || fdl::FunctionCode::from_byte(b).ok() != Some(fc) {
            rep.violation("C09/fc-roundtrip", format!("{:?} -> {:02x}", fc, b));
        }
        rep.count("fc_values_roundtripped");
    }
}

// ------------------------------------------------------------------------------------------------
// C10
// ------------------------------------------------------------------------------------------------

#[derive(Debug, Clone, PartialEq, Eq)]
enum LibDec {
    NeedMore,
    Reject,
    Accept(RTel, usize),
}

/// Run the library decoder with all totality checks.  Err = violation text.
fn lib_decode(buf: &[u8]) -> Result<LibDec, (String, String)> {
    let r = catch(|| {
        fdl::Telegram::deserialize(buf).map(|r| {
            r.map(|(t, l)| {
                let inside = match &t {
                    fdl::Telegram::Data(d) => {
                        let p = d.pdu.as_ptr() as usize;
                        let b = buf.as_ptr() as usize;
                        d.pdu.is_empty() || (p >= b && p + d.pdu.len() <= b + buf.len())
                    }
                    _ => true,
                };
                (rc::from_lib(&t), l, inside)
            })
        })
    });
    match r {
        Err(p) => Err((format!("C10/panic/{}", p.class()), format!("decoder panicked: {}", p.message))),
        Ok(None) => Ok(LibDec::NeedMore),
        Ok(Some(Err(()))) => Ok(LibDec::Reject),
        Ok(Some(Ok((t, l, inside)))) => {
            if l > buf.len() || l == 0 {
                return Err(("C10/length-outside-input".into(), format!("reported length {} for {} input bytes", l, buf.len())));
            }
            if !inside {
                return Err(("C10/pdu-outside-input".into(), "payload slice not inside the input".into()));
            }
            Ok(LibDec::Accept(t, l))
        }
    }
}

fn agree(lib: &LibDec, reference: &Dec) -> bool {
    match (lib, reference) {
        (LibDec::NeedMore, Dec::NeedMore) => true,
        (LibDec::NeedMore, Dec::NeedMoreOrReject) => true,
        (LibDec::Reject, Dec::NeedMoreOrReject) => true,
        (LibDec::Reject, Dec::Reject) => true,
        (LibDec::Accept(a, n), Dec::Accept(b, m)) => a == b && n == m,
        _ => false,
    }
}

fn mismatch_class(buf: &[u8], lib: &LibDec, reference: &Dec) -> String {
    let l = match lib {
        LibDec::NeedMore => "needmore",
        LibDec::Reject => "reject",
        LibDec::Accept(..) => "accept",
    };
    let r = match reference {
        Dec::NeedMore => "needmore",
        Dec::NeedMoreOrReject => "needmore-or-reject",
        Dec::Reject => "reject",
        Dec::Accept(..) => "accept",
    };
    let sd = match buf.first() {
        Some(&rc::SD1) => "SD1",
        Some(&rc::SD2) => "SD2",
        Some(&rc::SD3) => "SD3",
        Some(&rc::SD4) => "SD4",
        Some(&rc::SC) => "SC",
        Some(_) => "other",
        None => "empty",
    };
    // which part of the frame does the reference object to?
    let why = if let (LibDec::Accept(..), Dec::Reject) = (lib, reference) {
        if buf.first() == Some(&rc::SD2) && buf.len() >= 4 && buf[3] != rc::SD2 {
            "/sd2-repeat"
        } else if buf.first() == Some(&rc::SD2) && buf.len() >= 3 && buf[1] != buf[2] {
            "/le-ler"
        } else if let Some(n) = rc::required_len(buf) {
            if buf.len() >= n && buf[n - 1] != rc::ED {
                "/end-delimiter"
            } else {
                "/checksum-or-fc"
            }
        } else {
            ""
        }
    } else {
        ""
    };
    format!("C10/verdict/{}/lib-{}-ref-{}{}", sd, l, r, why)
}

/// Differential check of one byte string.  Returns the library verdict.
fn check_dec(rep: &mut Report, buf: &[u8]) -> Option<LibDec> {
    rep.evaluations += 1;
    if !rep.cur_case.starts_with("sub ") {
        rep.cur_case = format!("dec {}", if buf.is_empty() { "-".into() } else { hex(buf) });
    }
    let lib = match lib_decode(buf) {
        Ok(l) => l,
        Err((sig, what)) => {
            rep.violation(sig, format!("input {}: {}", hex(buf), what));
            return None;
        }
    };
    let reference = rc::decode(buf);
    if !agree(&lib, &reference) {
        rep.violation(
            mismatch_class(buf, &lib, &reference),
            format!("input {} ({} bytes): library says {:?}, frame format says {:?}", hex(&buf[..buf.len().min(40)]), buf.len(), short_lib(&lib), short_ref(&reference)),
        );
    }
    match &lib {
        LibDec::NeedMore => rep.count("verdict_needmore"),
        LibDec::Reject => rep.count("verdict_reject"),
        LibDec::Accept(..) => rep.count("verdict_accept"),
    }
    Some(lib)
}

fn short_lib(l: &LibDec) -> String {
    match l {
        LibDec::Accept(t, n) => format!("Accept({}, {})", t.short(), n),
        o => format!("{:?}", o),
    }
}
fn short_ref(l: &Dec) -> String {
    match l {
        Dec::Accept(t, n) => format!("Accept({}, {})", t.short(), n),
        o => format!("{:?}", o),
    }
}

/// Prefix consistency over all prefixes of `buf` (also checks each prefix differentially).
fn check_prefixes(rep: &mut Report, buf: &[u8]) {
    rep.cur_case = format!("pfx {}", if buf.is_empty() { "-".into() } else { hex(buf) });
    let mut decided: Option<(usize, LibDec)> = None;
    for k in 0..=buf.len() {
        if k % 16 == 0 && past_deadline() {
            rep.count("cases_cut_short_by_time_budget");
            return;
        }
        let Ok(lib) = lib_decode(&buf[..k]) else {
            rep.evaluations += 1;
            let e = lib_decode(&buf[..k]).unwrap_err();
            rep.violation(e.0, format!("input {}: {}", hex(&buf[..k]), e.1));
            return;
        };
        rep.evaluations += 1;
        let reference = rc::decode(&buf[..k]);
        if !agree(&lib, &reference) {
            rep.violation(
                mismatch_class(&buf[..k], &lib, &reference),
                format!("input {} ({} bytes): library says {}, frame format says {}", hex(&buf[..k.min(40)]), k, short_lib(&lib), short_ref(&reference)),
            );
            return;
        }
        match (&decided, &lib) {
            (None, LibDec::NeedMore) => {
                // "asks for more only while shorter than the announced frame"
                let req = rc::required_len(&buf[..k]);
                let allowed = match req {
                    Some(n) => k < n,
                    None => k < 6, // header not complete / not yet refuted below the 6-byte minimum
                };
                if !allowed {
                    rep.violation("C10/needmore-on-complete-input", format!("input {} has {} bytes, announced frame needs {:?}", hex(&buf[..k.min(40)]), k, req));
                    return;
                }
            }
            (None, v) => decided = Some((k, v.clone())),
            (Some((k0, v0)), v) => {
                if v != v0 {
                    rep.violation(
                        "C10/prefix-inconsistent",
                        format!("input {}: verdict {} at {} bytes, but {} at {} bytes", hex(&buf[..k.min(40)]), short_lib(v0), k0, short_lib(v), k),
                    );
                    return;
                }
            }
        }
    }
    rep.count("prefix_chains_checked");
}

/// All single-byte substitutions of a valid frame.
fn check_substitutions(rep: &mut Report, frame: &[u8], positions: &[usize], all_values: bool, rng: &mut Rng) {
    let orig = match rc::decode(frame) {
        Dec::Accept(t, n) if n == frame.len() => t,
        _ => panic!("harness: not a valid frame"),
    };
    let mut buf = frame.to_vec();
    for &pos in positions {
        if past_deadline() {
            rep.count("cases_cut_short_by_time_budget");
            return;
        }
        let old = frame[pos];
        let values: Vec<u8> = if all_values {
            (0..=255u8).filter(|v| *v != old).collect()
        } else {
            // all 8 single-bit flips + 8 random others
            let mut v: Vec<u8> = (0..8).map(|b| old ^ (1 << b)).collect();
            for _ in 0..8 {
                let x = rng.u8();
                if x != old {
                    v.push(x);
                }
            }
            v
        };
        for v in values {
            buf[pos] = v;
            rep.cur_case = format!("sub {} {} {:02x}", hex(frame), pos, v);
            let lib = check_dec(rep, &buf);
            rep.count("substitutions_checked");
            if (old ^ v).count_ones() == 1 {
                rep.count("single_bit_errors_checked");
            }
            if let Some(LibDec::Accept(t, _)) = lib {
                if t != orig {
                    // protocol-inherent carve-out: byte 0 replaced by another valid start
                    // delimiter makes the string a well-formed *other* frame (E5 = SC, DC = token).
                    // Never a single-bit error.
                    let carve = pos == 0 && (old ^ v).count_ones() > 1;
                    if carve {
                        rep.count("byte0_sd_substitution_wellformed_other_frame");
                    } else {
                        rep.violation(
                            "C10/misaccept-after-single-byte-corruption",
                            format!("frame {} with byte {} := {:02x} decodes as {}", hex(frame), pos, v, t.short()),
                        );
                    }
                }
            }
        }
        buf[pos] = old;
    }
    rep.cur_case.clear();
}

fn random_valid_frame(rng: &mut Rng) -> Vec<u8> {
    match rng.usize(12) {
        0 => vec![rc::SC],
        _ => {
            let sapi = rng.usize(4);
            let nsap = [0, 1, 1, 2][sapi];
            let len = match rng.usize(6) {
                0 => 0,
                1 => 8 - nsap,
                2 => 246 - nsap,
                3 => 1 + rng.usize(6),
                _ => rng.usize(60),
            };
            let fcb = loop {
                let b = rng.u8();
                if let Some(fc) = RFc::from_byte(b) {
                    break fc;
                }
            };
            rc::encode(&RTel::Data {
                da: rng.u8() & 0x7f,
                sa: rng.u8() & 0x7f,
                dsap: if sapi & 1 != 0 { Some(rng.u8()) } else { None },
                ssap: if sapi & 2 != 0 { Some(rng.u8()) } else { None },
                fc: fcb,
                pdu: rng.bytes(len),
            })
            .unwrap()
        }
    }
}

pub fn c10(ctx: &mut Ctx) {
    if let Some(only) = ctx.only.clone() {
        let mut rng = Rng::new(1);
        match only[0].as_str() {
            "dec" => {
                let b = if only[1] == "-" { vec![] } else { unhex(&only[1]) };
                check_dec(&mut ctx.rep, &b);
            }
            "pfx" => {
                let b = if only[1] == "-" { vec![] } else { unhex(&only[1]) };
                check_prefixes(&mut ctx.rep, &b);
            }
            "sub" => {
                let f = unhex(&only[1]);
                let pos: usize = only[2].parse().unwrap();
                check_substitutions(&mut ctx.rep, &f, &[pos], true, &mut rng);
            }
            _ => {}
        }
        return;
    }
    let mut rng = Rng::derive(ctx.seed, "C10", ctx.shard);
    let tier = ctx.tier;
    let mut idx = 0u64;

    // (1) all short strings
    let sds = [rc::SD1, rc::SD2, rc::SD3, rc::SD4, rc::SC];
    if ctx.shard == 0 {
        check_dec(&mut ctx.rep, &[]);
    }
    let max_len = match tier {
        Tier::Miri => 1,
        Tier::Quick => 2,
        Tier::Thorough => 3,
    };
    for b0 in 0..=255u8 {
        idx += 1;
        if !ctx.mine(idx) || ctx.over_budget() {
            continue;
        }
        check_dec(&mut ctx.rep, &[b0]);
        if sds.contains(&b0) {
            ctx.rep.nontrivial_enum();
        }
        if max_len >= 2 {
            for b1 in 0..=255u8 {
                check_dec(&mut ctx.rep, &[b0, b1]);
                if sds.contains(&b0) {
                    ctx.rep.nontrivial_enum();
                }
                if max_len >= 3 || (sds.contains(&b0) && tier == Tier::Quick && b1 % 16 == 3) {
                    for b2 in 0..=255u8 {
                        check_dec(&mut ctx.rep, &[b0, b1, b2]);
                        if sds.contains(&b0) {
                            ctx.rep.nontrivial_enum();
                        }
                    }
                }
            }
        }
    }
    if ctx.shard == 0 {
        ctx.rep.sample(J::obj(vec![("kind", J::s("all byte strings up to length")), ("max_len", J::U(max_len as u64))]));
    }

    // (2) all SD2 headers (LE, LEr, SD') with consistent and inconsistent bodies
    let le_step = if tier == Tier::Miri { 29 } else { 1 };
    for le in (0..=255u16).step_by(le_step) {
        idx += 1;
        if !ctx.mine(idx) || ctx.over_budget() {
            continue;
        }
        let le = le as u8;
        for ler in [le, le.wrapping_add(1), le.wrapping_sub(1), rng.u8()] {
            for sd2r in [rc::SD2, rc::SD1, rc::SD3, rng.u8()] {
                // body of LE bytes (+ FCS + ED), built to be valid if the header is
                let blen = le as usize;
                let mut body: Vec<u8> = Vec::new();
                if blen >= 3 {
                    let fc = loop {
                        let b = rng.u8();
                        if RFc::from_byte(b).is_some() {
                            break b;
                        }
                    };
                    let da = rng.u8();
                    let sa = rng.u8();
                    body.push(da);
                    body.push(sa);
                    body.push(fc);
                    body.extend(rng.bytes(blen - 3));
                } else {
                    body.extend(rng.bytes(blen));
                }
                let fcs = body.iter().fold(0u8, |a, b| a.wrapping_add(*b));
                let mut frame = vec![rc::SD2, le, ler, sd2r];
                frame.extend_from_slice(&body);
                frame.push(fcs);
                frame.push(rc::ED);
                // variants
                check_prefixes(&mut ctx.rep, &frame);
                ctx.rep.nontrivial_enum();
                let n = frame.len();
                let mut v = frame.clone();
                v[n - 2] = v[n - 2].wrapping_add(1 + rng.u8() % 255);
                check_dec(&mut ctx.rep, &v); // wrong FCS
                let mut v = frame.clone();
                v[n - 1] = rng.u8();
                check_dec(&mut ctx.rep, &v); // (probably) wrong ED
                check_dec(&mut ctx.rep, &frame[..n - 1]);
                check_dec(&mut ctx.rep, &frame[..n / 2]);
                let mut v = frame.clone();
                v.extend(rng.bytes(1 + rng.clone().usize(5)));
                check_dec(&mut ctx.rep, &v); // garbage suffix
                if blen >= 3 {
                    // unknown function codes
                    let mut v = frame.clone();
                    v[6] = loop {
                        let b = rng.u8();
                        if RFc::from_byte(b).is_none() {
                            break b;
                        }
                    };
                    let s = v[4..4 + blen].iter().fold(0u8, |a, b| a.wrapping_add(*b));
                    v[n - 2] = s;
                    check_dec(&mut ctx.rep, &v);
                    // address-extension bits with a body too short for the SAPs
                    let mut v = frame.clone();
                    v[4] |= 0x80;
                    v[5] |= 0x80;
                    let s = v[4..4 + blen].iter().fold(0u8, |a, b| a.wrapping_add(*b));
                    v[n - 2] = s;
                    check_dec(&mut ctx.rep, &v);
                }
            }
        }
    }
    // SD1 / SD3 structured
    let n_fixed = ctx.n(20_000, 400_000, 20);
    for _ in 0..n_fixed {
        if ctx.over_budget() {
            break;
        }
        let sd = if rng.bool() { rc::SD1 } else { rc::SD3 };
        let blen = if sd == rc::SD1 { 3 } else { 11 };
        let mut body = rng.bytes(blen);
        if rng.chance(3, 4) {
            body[2] = loop {
                let b = rng.u8();
                if RFc::from_byte(b).is_some() {
                    break b;
                }
            };
        }
        let fcs = body.iter().fold(0u8, |a, b| a.wrapping_add(*b));
        let mut frame = vec![sd];
        frame.extend_from_slice(&body);
        frame.push(if rng.chance(7, 8) { fcs } else { rng.u8() });
        frame.push(if rng.chance(7, 8) { rc::ED } else { rng.u8() });
        check_prefixes(&mut ctx.rep, &frame);
        let mut fp = Fp::new();
        fp.b(&frame);
        ctx.rep.nontrivial(fp.get());
    }

    // (3) single-byte substitutions of valid frames
    let n_sub = ctx.n(600, 40_000, 3);
    for k in 0..n_sub {
        if ctx.over_budget() {
            break;
        }
        let frame = random_valid_frame(&mut rng);
        let n = frame.len();
        let all_positions = n <= 32 || k % 8 == 0;
        let positions: Vec<usize> = if all_positions {
            (0..n).collect()
        } else {
            let mut p: Vec<usize> = vec![0, 1, 2, 3, 4, 5, 6, 7, 8, n - 3, n - 2, n - 1];
            for _ in 0..12 {
                p.push(rng.usize(n));
            }
            p.sort();
            p.dedup();
            p
        };
        let all_values = tier != Tier::Miri && (n <= 32 || k % 4 == 0);
        check_substitutions(&mut ctx.rep, &frame, &positions, all_values, &mut rng);
        let mut fp = Fp::new();
        fp.b(&frame);
        ctx.rep.nontrivial(fp.get());
        if k == 0 {
            ctx.rep.sample(J::obj(vec![
                ("kind", J::s("every single-byte substitution of a valid frame")),
                ("frame", J::hex(&frame[..n.min(48)])),
                ("frame_len", J::U(n as u64)),
                ("positions", J::U(positions.len() as u64)),
            ]));
        }
    }

    // (4) random / mutational strings with all prefixes
    let n_rand = ctx.n(60_000, 3_000_000, 40);
    for k in 0..n_rand {
        if ctx.over_budget() {
            break;
        }
        let buf = match rng.usize(5) {
            0 => {
                // pure random, biased to start with a start delimiter
                let n = rng.usize(if k % 50 == 0 { 263 } else { 24 });
                let mut b = rng.bytes(n);
                if n > 0 && rng.chance(3, 4) {
                    b[0] = *rng.pick(&sds);
                }
                b
            }
            1 => {
                // valid frame + insert/delete/duplicate
                let mut f = random_valid_frame(&mut rng);
                match rng.usize(3) {
                    0 => {
                        let p = rng.usize(f.len() + 1);
                        f.insert(p, rng.u8());
                    }
                    1 => {
                        let p = rng.usize(f.len());
                        f.remove(p);
                    }
                    _ => {
                        let p = rng.usize(f.len());
                        let x = f[p];
                        f.insert(p, x);
                    }
                }
                f
            }
            2 => {
                // two frames back to back (second possibly truncated)
                let mut f = random_valid_frame(&mut rng);
                let g = random_valid_frame(&mut rng);
                let cut = rng.usize(g.len() + 1);
                f.extend_from_slice(&g[..cut]);
                f
            }
            3 => {
                // token frames with arbitrary addresses and suffixes
                let mut f = vec![rc::SD4, rng.u8(), rng.u8()];
                f.extend(rng.bytes(rng.clone().usize(4)));
                f
            }
            _ => {
                // SD2 with random LE/LEr relation and short random tail
                let le = rng.u8();
                let mut f = vec![rc::SD2, le, if rng.chance(3, 4) { le } else { rng.u8() }, if rng.chance(3, 4) { rc::SD2 } else { rng.u8() }];
                let want = le as usize + 2;
                let have = match rng.usize(3) {
                    0 => want,
                    1 => rng.usize(want + 1),
                    _ => want + rng.usize(4),
                };
                f.extend(rng.bytes(have));
                f
            }
        };
        if buf.len() <= 40 || k % 16 == 0 {
            check_prefixes(&mut ctx.rep, &buf);
        } else {
            check_dec(&mut ctx.rep, &buf);
        }
        if buf.first().map(|b| sds.contains(b)).unwrap_or(false) {
            let mut fp = Fp::new();
            fp.b(&buf);
            ctx.rep.nontrivial(fp.get());
        }
        if k == 1 {
            ctx.rep.sample(J::obj(vec![("kind", J::s("mutated/random byte string, all prefixes")), ("bytes", J::hex(&buf[..buf.len().min(48)]))]));
        }
    }
}
