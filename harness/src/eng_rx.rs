//! C16 — the generic `ProfibusPhy` receive helpers (`receive_telegram`, `receive_all_telegrams`,
//! `poll_pending_received_bytes`) reassemble the byte stream independent of chunking.
//!
//! Oracle: an executable model of the helper contract driven by the *reference* decoder over a
//! model copy of the receive buffer, checked after every call (which telegrams were handed over,
//! `is_last`, how many bytes were consumed), plus the end-to-end statement of the property
//! (delivered sequence == sent sequence for valid traffic; recovery after discarded garbage).
//! Two PHYs: the harness PHY (`MonPhy`, arbitrary chunks injected directly) and the repository's
//! `SimulatorPhy` (chunking by advancing the simulated bus time in sub-byte and multi-byte steps).

use crate::refcodec::{self as rc, Dec, RFc, RTel};
use crate::util::*;
use crate::vbus::{Bus, MonPhy};
use crate::{Ctx, Tier};
use profirust::phy::{ProfibusPhy, SimulatorPhy};
use profirust::time::{Duration, Instant};
use std::cell::RefCell;
use std::rc::Rc;

fn random_frame(rng: &mut Rng) -> Vec<u8> {
    if rng.chance(1, 12) {
        // SD2 framing of a telegram that the crate itself would send as SD1 / SD3
        let n = *rng.pick(&[0usize, 8]);
        let fc = loop {
            let b = rng.u8();
            if RFc::from_byte(b).is_some() {
                break b;
            }
        };
        let mut body = vec![rng.u8() & 0x7f, rng.u8() & 0x7f, fc];
        body.extend(rng.bytes(n));
        let le = body.len() as u8;
        let fcs = body.iter().fold(0u8, |a, b| a.wrapping_add(*b));
        let mut f = vec![rc::SD2, le, le, rc::SD2];
        f.extend_from_slice(&body);
        f.push(fcs);
        f.push(rc::ED);
        return f;
    }
    match rng.usize(10) {
        0 => vec![rc::SC],
        1 | 2 => vec![rc::SD4, rng.u8() & 0x7f, rng.u8() & 0x7f],
        _ => {
            let sapi = rng.usize(4);
            let nsap = [0, 1, 1, 2][sapi];
            let len = match rng.usize(8) {
                0 => 0,
                1 => 8 - nsap,
                2 => 246 - nsap,
                3 => 1,
                4 => rng.usize(246 - nsap + 1),
                _ => rng.usize(20),
            };
            let fc = loop {
                if let Some(fc) = RFc::from_byte(rng.u8()) {
                    break fc;
                }
            };
            rc::encode(&RTel::Data {
                da: rng.u8() & 0x7f,
                sa: rng.u8() & 0x7f,
                dsap: if sapi & 1 != 0 { Some(rng.u8()) } else { None },
                ssap: if sapi & 2 != 0 { Some(rng.u8()) } else { None },
                fc,
                pdu: rng.bytes(len),
            })
            .unwrap()
        }
    }
}

/// Garbage that the reference decoder rejects outright (so that "discard everything" is expected).
fn random_garbage(rng: &mut Rng) -> Vec<u8> {
    loop {
        let n = 1 + rng.usize(12);
        let mut g = rng.bytes(n);
        if rng.bool() {
            // damaged frame: valid frame with a flipped checksum
            g = random_frame(rng);
            if g.len() < 6 {
                continue;
            }
            // ... or with one damaged byte anywhere (start delimiters, length fields, repeated start
            // delimiter, addresses, end delimiter)
            let k = if rng.bool() { g.len() - 2 } else if rng.bool() { rng.usize(g.len().min(4)) } else { rng.usize(g.len()) };
            g[k] ^= if rng.bool() { 0x5a } else { 1 << rng.usize(8) };
        }
        if matches!(rc::decode(&g), Dec::Reject) {
            return g;
        }
    }
}

#[derive(Clone, Debug, PartialEq, Eq)]
struct Handed {
    tel: RTel,
    is_last: Option<bool>,
}

/// Model of the helper contract.  Returns (expected callbacks, expected consumed bytes, expected
/// `Some`/`None` of the return value).
fn model_receive_one(m: &[u8]) -> (Vec<Handed>, usize, bool) {
    match rc::decode(m) {
        Dec::NeedMore | Dec::NeedMoreOrReject => (vec![], 0, false),
        Dec::Reject => (vec![], m.len(), false),
        Dec::Accept(t, n) => (vec![Handed { tel: t, is_last: None }], n, true),
    }
}

fn model_receive_all(m: &[u8]) -> (Vec<Handed>, usize, bool) {
    let mut out = Vec::new();
    let mut used = 0;
    loop {
        let rest = &m[used..];
        match rc::decode(rest) {
            Dec::NeedMore | Dec::NeedMoreOrReject => return (out, used, false),
            Dec::Reject => return (out, m.len(), false),
            Dec::Accept(t, n) => {
                let last = n == rest.len();
                out.push(Handed {
                    tel: t,
                    is_last: Some(last),
                });
                used += n;
                if last {
                    return (out, used, true);
                }
            }
        }
    }
}

#[derive(Clone, Debug)]
enum Op {
    /// bytes become visible
    Chunk(Vec<u8>),
    One,
    All,
    Pending,
}

struct Outcome {
    handed: Vec<RTel>,
}

/// Generic runner over any PHY for which the harness can make `bytes` visible.
fn run_ops<P: ProfibusPhy>(
    rep: &mut Report,
    phy: &mut P,
    ops: &[Op],
    mut make_visible: impl FnMut(&mut P, &[u8]),
    now: &mut Instant,
    phy_name: &str,
) -> Option<Outcome> {
    let mut model: Vec<u8> = Vec::new();
    let mut handed_all = Vec::new();
    for (k, op) in ops.iter().enumerate() {
        match op {
            Op::Chunk(b) => {
                make_visible(phy, b);
                model.extend_from_slice(b);
            }
            Op::Pending => {
                let n = catch(|| phy.poll_pending_received_bytes(*now));
                match n {
                    Ok(n) if n == model.len() => rep.count("pending_polls_checked"),
                    Ok(n) => {
                        rep.violation(format!("C16/{}/pending-count", phy_name), format!("op {}: {} bytes pending, {} reported", k, model.len(), n));
                        return None;
                    }
                    Err(p) => {
                        rep.violation(format!("C16/{}/panic/{}", phy_name, p.class()), p.message);
                        return None;
                    }
                }
            }
            Op::One | Op::All => {
                let all = matches!(op, Op::All);
                let mut got: Vec<Handed> = Vec::new();
                let r = catch(|| {
                    if all {
                        phy.receive_all_telegrams(*now, |t, last| {
                            got.push(Handed {
                                tel: rc::from_lib(&t),
                                is_last: Some(last),
                            });
                            got.len()
                        })
                    } else {
                        phy.receive_telegram(*now, |t| {
                            got.push(Handed {
                                tel: rc::from_lib(&t),
                                is_last: None,
                            });
                            got.len()
                        })
                    }
                });
                let ret = match r {
                    Ok(r) => r,
                    Err(p) => {
                        rep.violation(format!("C16/{}/panic/{}", phy_name, p.class()), format!("op {}: {}", k, p.message));
                        return None;
                    }
                };
                let (want, used, some) = if all { model_receive_all(&model) } else { model_receive_one(&model) };
                let which = if all { "receive_all_telegrams" } else { "receive_telegram" };
                if got != want {
                    // classify
                    let class = if got.len() != want.len() {
                        if got.len() > want.len() { "extra-or-duplicate-telegram" } else { "missing-telegram" }
                    } else if got.iter().zip(want.iter()).any(|(a, b)| a.tel != b.tel) {
                        "wrong-telegram"
                    } else {
                        "is-last-flag"
                    };
                    rep.violation(
                        format!("C16/{}/{}/{}", phy_name, which, class),
                        format!(
                            "op {}: buffer {} -> handed {:?}, contract says {:?}",
                            k,
                            hex(&model[..model.len().min(40)]),
                            got.iter().map(|h| (h.tel.short(), h.is_last)).collect::<Vec<_>>(),
                            want.iter().map(|h| (h.tel.short(), h.is_last)).collect::<Vec<_>>()
                        ),
                    );
                    return None;
                }
                // return value forwarding: Some(result of the last callback) iff a "last" telegram was seen
                let ret_ok = if some { ret == Some(got.len()) } else { ret.is_none() };
                if !ret_ok {
                    rep.violation(format!("C16/{}/{}/return-value", phy_name, which), format!("op {}: returned {:?}, {} callbacks, expected Some = {}", k, ret, got.len(), some));
                    return None;
                }
                // consumed bytes
                let left = match catch(|| phy.receive_data(*now, |b| (0, b.to_vec()))) {
                    Ok(l) => l,
                    Err(p) => {
                        rep.violation(format!("C16/{}/panic/{}", phy_name, p.class()), p.message);
                        return None;
                    }
                };
                if left != model[used..] {
                    let class = if left.len() < model.len() - used { "dropped-too-many-bytes" } else { "dropped-too-few-bytes" };
                    rep.violation(
                        format!("C16/{}/{}/{}", phy_name, which, class),
                        format!("op {}: buffer {} ({} bytes): {} bytes left, contract says {}", k, hex(&model[..model.len().min(40)]), model.len(), left.len(), model.len() - used),
                    );
                    return None;
                }
                model.drain(..used);
                for h in got {
                    handed_all.push(h.tel);
                }
                rep.count(if all { "receive_all_calls_checked" } else { "receive_one_calls_checked" });
                if used > 0 && want.is_empty() {
                    rep.count("discards_observed");
                }
            }
        }
        *now += Duration::from_micros(50);
    }
    Some(Outcome { handed: handed_all })
}

struct Case {
    frames: Vec<Vec<u8>>,
    /// index of garbage episodes: (after frame k, bytes)
    ops: Vec<Op>,
    valid_only: bool,
}

/// Build an op list: the byte stream of `frames` split at `cuts`, with receive calls in between.
fn build_ops(rng: &mut Rng, stream: &[u8], cuts: &[usize], style: u8, nframes: usize) -> Vec<Op> {
    let mut ops = Vec::new();
    let mut prev = 0;
    let mut all_cuts: Vec<usize> = cuts.to_vec();
    all_cuts.push(stream.len());
    for c in all_cuts {
        if c > prev {
            ops.push(Op::Chunk(stream[prev..c].to_vec()));
            prev = c;
        }
        // polls between chunks
        let n = match style {
            0 => 1,
            1 => rng.usize(3),
            _ => rng.usize(2),
        };
        for _ in 0..n {
            ops.push(match (style, rng.usize(5)) {
                (0, _) => Op::One,
                (1, _) => Op::All,
                (_, 0) => Op::Pending,
                (_, 1) | (_, 2) => Op::One,
                _ => Op::All,
            });
        }
    }
    // drain
    for _ in 0..(if style == 1 { 3 } else { nframes + 2 }) {
        ops.push(if style == 0 { Op::One } else if style == 1 { Op::All } else { Op::One });
    }
    ops
}

fn gen_case(rng: &mut Rng, small: bool) -> Case {
    let nframes = if small { 1 + rng.usize(3) } else { 1 + rng.usize(12) };
    let frames: Vec<Vec<u8>> = (0..nframes).map(|_| random_frame(rng)).collect();
    let stream: Vec<u8> = frames.concat();
    let ncuts = match rng.usize(4) {
        0 => 0,
        1 => stream.len().min(1 + rng.usize(4)),
        2 => stream.len() / 2,
        _ => rng.usize(stream.len() + 1),
    };
    let mut cuts: Vec<usize> = (0..ncuts).map(|_| rng.usize(stream.len() + 1)).collect();
    cuts.sort();
    cuts.dedup();
    let style = rng.usize(3) as u8;
    let ops = build_ops(rng, &stream, &cuts, style, frames.len());
    Case {
        frames,
        ops,
        valid_only: true,
    }
}

fn gen_garbage_case(rng: &mut Rng) -> Case {
    // valid frames, then garbage (polled until discarded), then a valid frame arriving separately
    let mut ops = Vec::new();
    let mut frames = Vec::new();
    let episodes = 1 + rng.usize(3);
    for _ in 0..episodes {
        if rng.bool() {
            let f = random_frame(rng);
            ops.push(Op::Chunk(f.clone()));
            ops.push(Op::All);
            frames.push(f);
        }
        // garbage may itself arrive in pieces; every piece that is polled on its own must be
        // undecodable by itself, so that the buffer is empty again afterwards (the property speaks
        // about the next telegram arriving *separately*)
        let (g, cut, poll_between) = loop {
            let g = random_garbage(rng);
            let cut = rng.usize(g.len() + 1);
            let poll_between = rng.bool();
            let piece_ok = |p: &[u8]| p.is_empty() || matches!(rc::decode(p), Dec::Reject);
            if !poll_between || (piece_ok(&g[..cut]) && piece_ok(&g[cut..])) {
                break (g, cut, poll_between);
            }
        };
        ops.push(Op::Chunk(g[..cut].to_vec()));
        if poll_between {
            ops.push(if rng.bool() { Op::One } else { Op::All });
        }
        ops.push(Op::Chunk(g[cut..].to_vec()));
        ops.push(if rng.bool() { Op::One } else { Op::All });
        ops.push(Op::Pending);
        let f = random_frame(rng);
        let cut = rng.usize(f.len() + 1);
        ops.push(Op::Chunk(f[..cut].to_vec()));
        ops.push(if rng.bool() { Op::One } else { Op::All });
        ops.push(Op::Chunk(f[cut..].to_vec()));
        ops.push(if rng.bool() { Op::One } else { Op::All });
        ops.push(Op::All);
        frames.push(f);
    }
    Case {
        frames,
        ops,
        valid_only: false,
    }
}

fn run_case_monphy(rep: &mut Report, case: &Case) -> bool {
    let bus = Rc::new(RefCell::new(Bus::new(profirust::Baudrate::B500000, 1)));
    let mut phy = MonPhy::new(&bus, "rx");
    let src = bus.borrow_mut().add_port("src", true);
    let _ = src;
    let mut now = Instant::from_micros(1000);
    let bus2 = bus.clone();
    let port = phy.port;
    let out = run_ops(
        rep,
        &mut phy,
        &case.ops,
        |_phy, bytes| bus2.borrow_mut().inject(port, bytes),
        &mut now,
        "harness-phy",
    );
    end_to_end(rep, case, out, "harness-phy")
}

fn end_to_end(rep: &mut Report, case: &Case, out: Option<Outcome>, phy_name: &str) -> bool {
    let Some(out) = out else { return false };
    let sent: Vec<RTel> = case.frames.iter().map(|f| rc::decode_frame(f).unwrap()).collect();
    if out.handed != sent {
        // (cannot normally happen when the step-wise model agreed, kept as the property's own statement)
        let class = if case.valid_only { "sequence-differs" } else { "not-recovered-after-discard" };
        rep.violation(
            format!("C16/{}/end-to-end/{}", phy_name, class),
            format!("sent {:?}, handed {:?}", sent.iter().map(|t| t.short()).collect::<Vec<_>>(), out.handed.iter().map(|t| t.short()).collect::<Vec<_>>()),
        );
        return false;
    }
    rep.add("telegrams_delivered_in_order", sent.len() as u64);
    true
}

/// The same over the repository's SimulatorPhy: chunking by advancing the bus time.
fn run_case_simphy(rep: &mut Report, rng: &mut Rng, frames: &[Vec<u8>], style: u8) -> bool {
    let baud = *rng.pick(&[profirust::Baudrate::B19200, profirust::Baudrate::B500000, profirust::Baudrate::B1500000]);
    let bit_us = |bits: u64| (bits * 1_000_000 / baud.to_rate()) as i64;
    let mut tx = SimulatorPhy::new(baud, "tx");
    let mut rx = tx.duplicate("rx");
    let mut t: i64 = 1000;
    tx.set_bus_time(Instant::from_micros(t));
    let mut model: Vec<u8> = Vec::new();
    let mut handed: Vec<RTel> = Vec::new();
    let mut ok = true;
    let r = catch(|| {
        for f in frames {
            // the simulator bus insists on idle time between telegrams
            t += bit_us(34);
            tx.set_bus_time(Instant::from_micros(t));
            tx.transmit_data(Instant::from_micros(t), |buf| {
                buf[..f.len()].copy_from_slice(f);
                (f.len(), ())
            });
            let t_end = t + bit_us(11 * f.len() as u64) + 2;
            let mut visible_of_f = 0usize;
            // advance in random steps, polling the receiver at some of them
            while t < t_end {
                let step = match rng.usize(4) {
                    0 => 1 + rng.below(bit_us(5).max(1) as u64) as i64,
                    1 => bit_us(11),
                    2 => bit_us(11 * (1 + rng.below(20))),
                    _ => t_end - t,
                };
                t = (t + step.max(1)).min(t_end);
                tx.set_bus_time(Instant::from_micros(t));
                let now = Instant::from_micros(t);
                // learn how many bytes are visible (not through the helper under test)
                let pending = rx.receive_data(now, |b| (0, b.len()));
                let newly = pending - model.len();
                model.extend_from_slice(&f[visible_of_f..visible_of_f + newly]);
                visible_of_f += newly;
                if rng.chance(2, 3) {
                    let all = match style {
                        0 => false,
                        1 => true,
                        _ => rng.bool(),
                    };
                    let mut got: Vec<Handed> = Vec::new();
                    if all {
                        rx.receive_all_telegrams(now, |t, last| {
                            got.push(Handed { tel: rc::from_lib(&t), is_last: Some(last) });
                        });
                    } else {
                        rx.receive_telegram(now, |t| {
                            got.push(Handed { tel: rc::from_lib(&t), is_last: None });
                        });
                    }
                    let (want, used, _) = if all { model_receive_all(&model) } else { model_receive_one(&model) };
                    let left = rx.receive_data(now, |b| (0, b.len()));
                    if got != want || left != model.len() - used {
                        rep.violation(
                            format!("C16/simulator-phy/{}/contract", if all { "receive_all_telegrams" } else { "receive_telegram" }),
                            format!("buffer {}: handed {:?} ({} left), contract says {:?} ({} left)", hex(&model[..model.len().min(40)]), got.iter().map(|h| (h.tel.short(), h.is_last)).collect::<Vec<_>>(), left, want.iter().map(|h| (h.tel.short(), h.is_last)).collect::<Vec<_>>(), model.len() - used),
                        );
                        ok = false;
                        return;
                    }
                    model.drain(..used);
                    handed.extend(got.into_iter().map(|h| h.tel));
                    rep.count("simulator_phy_calls_checked");
                }
            }
        }
        // drain
        let now = Instant::from_micros(t + 10);
        tx.set_bus_time(now);
        for _ in 0..frames.len() + 2 {
            rx.receive_all_telegrams(now, |t, _| handed.push(rc::from_lib(&t)));
        }
    });
    if let Err(p) = r {
        rep.violation(format!("C16/simulator-phy/panic/{}", p.class()), p.message);
        return false;
    }
    if !ok {
        return false;
    }
    let sent: Vec<RTel> = frames.iter().map(|f| rc::decode_frame(f).unwrap()).collect();
    if handed != sent {
        rep.violation("C16/simulator-phy/end-to-end/sequence-differs", format!("sent {} telegrams, handed {}", sent.len(), handed.len()));
        return false;
    }
    rep.add("telegrams_delivered_in_order", sent.len() as u64);
    true
}

pub fn c16(ctx: &mut Ctx) {
    let replay_idx: Option<(String, u64)> = ctx.only.as_ref().map(|o| (o[0].clone(), o[1].parse().unwrap()));
    let seed = ctx.seed;
    let run = |rep: &mut Report, kind: &str, idx: u64| {
        let mut rng = Rng::derive(seed, kind, idx);
        rep.evaluations += 1;
        rep.cur_case = format!("{} {}", kind, idx);
        match kind {
            "rand" | "small" => {
                let case = gen_case(&mut rng, kind == "small");
                if run_case_monphy(rep, &case) {
                    let mut fp = Fp::new();
                    for op in &case.ops {
                        match op {
                            Op::Chunk(b) => {
                                fp.b(b);
                            }
                            Op::One => {
                                fp.u(1);
                            }
                            Op::All => {
                                fp.u(2);
                            }
                            Op::Pending => {
                                fp.u(3);
                            }
                        }
                    }
                    rep.nontrivial(fp.get());
                    if idx < 16 {
                        rep.sample(J::obj(vec![
                            ("kind", J::s("valid telegram sequence, random chunking, harness PHY")),
                            ("telegrams", J::A(case.frames.iter().map(|f| J::s(rc::decode_frame(f).unwrap().short())).collect())),
                            ("chunks", J::A(case.ops.iter().filter_map(|o| if let Op::Chunk(b) = o { Some(J::U(b.len() as u64)) } else { None }).collect())),
                        ]));
                    }
                }
            }
            "garbage" => {
                let case = gen_garbage_case(&mut rng);
                if run_case_monphy(rep, &case) {
                    let mut fp = Fp::new();
                    for f in &case.frames {
                        fp.b(f);
                    }
                    fp.u(case.ops.len() as u64);
                    rep.nontrivial(fp.get());
                    rep.count("garbage_episodes_recovered");
                    if idx < 16 {
                        rep.sample(J::obj(vec![
                            ("kind", J::s("garbage episode then separately arriving telegram")),
                            ("ops", J::A(case.ops.iter().take(12).map(|o| J::s(match o { Op::Chunk(b) => format!("chunk {}", hex(&b[..b.len().min(16)])), Op::One => "receive_telegram".into(), Op::All => "receive_all_telegrams".into(), Op::Pending => "poll_pending".into() })).collect())),
                        ]));
                    }
                }
            }
            "sim" => {
                let n = 1 + rng.usize(6);
                let frames: Vec<Vec<u8>> = (0..n).map(|_| random_frame(&mut rng)).collect();
                let style = rng.usize(3) as u8;
                if run_case_simphy(rep, &mut rng, &frames, style) {
                    let mut fp = Fp::new();
                    for f in &frames {
                        fp.b(f);
                    }
                    fp.u(rng.next_u64()); // the chunking is part of the case
                    rep.nontrivial(fp.get());
                }
            }
            "split" => {
                // every split point (and every pair of split points for short streams) of 1..3 frames
                let n = 1 + rng.usize(3);
                let frames: Vec<Vec<u8>> = (0..n)
                    .map(|_| loop {
                        let f = random_frame(&mut rng);
                        if f.len() <= 24 {
                            break f;
                        }
                    })
                    .collect();
                let stream = frames.concat();
                let mut all_ok = true;
                for a in 0..=stream.len() {
                    for b in a..=stream.len() {
                        if b != a && stream.len() > 30 && (b - a) % 3 != 0 {
                            continue;
                        }
                        for style in 0..2u8 {
                            let ops = build_ops(&mut rng, &stream, &[a, b], style, frames.len());
                            let case = Case { frames: frames.clone(), ops, valid_only: true };
                            rep.evaluations += 1;
                            if run_case_monphy(rep, &case) {
                                rep.nontrivial_enum();
                            } else {
                                all_ok = false;
                            }
                        }
                    }
                }
                if all_ok {
                    rep.count("all_split_points_streams");
                }
            }
            _ => {}
        }
    };
    if let Some((kind, idx)) = replay_idx {
        run(&mut ctx.rep, &kind, idx);
        return;
    }
    let plan: [(&str, u64, u64, u64); 5] = [
        ("rand", 60_000, 3_000_000, 40),
        ("small", 60_000, 2_000_000, 40),
        ("garbage", 40_000, 1_000_000, 30),
        ("sim", 20_000, 600_000, 10),
        ("split", 1_500, 40_000, 2),
    ];
    for (kind, q, t, m) in plan {
        let n = ctx.n(q, t, m);
        for k in 0..n {
            if ctx.over_budget() {
                break;
            }
            let idx = ctx.shard + k * ctx.nshards;
            run(&mut ctx.rep, kind, idx);
        }
    }
    let _ = Tier::Quick;
}
