#![allow(dead_code)]
//! pbmon — runtime monitors for Rahix/profirust.
//!
//! `pbmon run <PROP> --tier quick|thorough --seed N --shard I/N --out FILE [--scale F]`
//! `pbmon case <PROP> <case descriptor...>`   re-run one case verbosely (replay)

mod refcodec;
mod refslave;
mod util;

mod sim;
mod vbus;

mod eng_c05;
mod eng_c11;
mod eng_c12;
mod eng_c15;
mod eng_c18;
mod eng_codec;
mod eng_diag;
mod eng_dp;
mod eng_dp2;
mod eng_gsd;
mod eng_hold;
mod eng_las;
mod eng_prm;
mod eng_recover;
mod eng_ring;
mod eng_rx;
mod eng_script;

use util::*;

#[derive(Clone, Copy, PartialEq, Eq, Debug)]
pub enum Tier {
    Quick,
    Thorough,
    /// tiny workloads for the Miri legs
    Miri,
}

pub struct Ctx {
    pub prop: String,
    pub tier: Tier,
    pub seed: u64,
    pub shard: u64,
    pub nshards: u64,
    /// multiplies the number of random cases
    pub scale: f64,
    pub rep: Report,
    /// if set: run only this case (replay)
    pub only: Option<Vec<String>>,
    pub t0: std::time::Instant,
    /// wall-clock budget in seconds (PBMON_BUDGET_S): workloads stop generating new cases when it is
    /// used up (the Miri legs are sized by time, not by count)
    pub budget_s: Option<f64>,
}

impl Ctx {
    /// number of random cases for this shard given the per-tier totals
    pub fn n(&self, quick: u64, thorough: u64, miri: u64) -> u64 {
        let total = match self.tier {
            Tier::Quick => quick,
            Tier::Thorough => thorough,
            Tier::Miri => miri,
        };
        let total = (total as f64 * self.scale).ceil() as u64;
        // cases are dealt round-robin: indices shard, shard+n, ...
        (total + self.nshards - 1 - self.shard) / self.nshards
    }
    pub fn mine(&self, idx: u64) -> bool {
        idx % self.nshards == self.shard
    }
    pub fn is_replay(&self) -> bool {
        self.only.is_some()
    }
    pub fn over_budget(&mut self) -> bool {
        match self.budget_s {
            Some(b) if self.t0.elapsed().as_secs_f64() > b => {
                self.rep.counters.insert("stopped_by_time_budget".into(), 1);
                true
            }
            _ => false,
        }
    }
}

fn usage() -> ! {
    eprintln!("usage: pbmon run <PROP> --tier quick|thorough|miri --seed N --shard I/N --out FILE [--scale F]\n       pbmon case <PROP> <descriptor...>");
    std::process::exit(2);
}

fn main() {
    let args: Vec<String> = std::env::args().collect();
    if args.len() < 3 {
        usage();
    }
    let mode = args[1].as_str();
    let prop = args[2].clone();
    let mut tier = Tier::Quick;
    let mut seed = 1u64;
    let mut shard = 0u64;
    let mut nshards = 1u64;
    let mut out: Option<String> = None;
    let mut scale = 1.0f64;
    let mut budget: Option<f64> = std::env::var("PBMON_BUDGET_S").ok().and_then(|s| s.parse().ok());
    let mut rest: Vec<String> = Vec::new();
    let mut i = 3;
    while i < args.len() {
        match args[i].as_str() {
            "--tier" => {
                tier = match args[i + 1].as_str() {
                    "quick" => Tier::Quick,
                    "thorough" => Tier::Thorough,
                    "miri" => Tier::Miri,
                    _ => usage(),
                };
                i += 2;
            }
            "--seed" => {
                seed = args[i + 1].parse().unwrap_or_else(|_| usage());
                i += 2;
            }
            "--shard" => {
                let (a, b) = args[i + 1].split_once('/').unwrap_or_else(|| usage());
                shard = a.parse().unwrap();
                nshards = b.parse().unwrap();
                i += 2;
            }
            "--out" => {
                out = Some(args[i + 1].clone());
                i += 2;
            }
            "--scale" => {
                scale = args[i + 1].parse().unwrap();
                i += 2;
            }
            "--budget" => {
                // (argv, not environment: cargo-miri replays the build-time environment at run time)
                budget = args[i + 1].parse().ok();
                i += 2;
            }
            _ => {
                rest.push(args[i].clone());
                i += 1;
            }
        }
    }
    let replay = mode == "case";
    install_panic_hook(replay);
    install_logger(replay && std::env::var("PBMON_LOG").is_ok());

    // (under the Miri interpreter the self-check alone takes minutes; the native run of the same
    //  sources, which always precedes a Miri leg, has done it)
    if tier != Tier::Miri {
        if let Err(e) = refcodec::selfcheck() {
            eprintln!("HARNESS ERROR: reference codec self-check failed: {}", e);
            std::process::exit(2);
        }
    }

    if let Some(b) = budget {
        // (a case that is under way may use up to half the budget again before its inner loops give up)
        util::set_deadline_s(b * 1.5);
    }
    let mut ctx = Ctx {
        prop: prop.clone(),
        tier,
        seed,
        shard,
        nshards,
        scale,
        rep: Report::default(),
        only: if replay { Some(rest.clone()) } else { None },
        t0: std::time::Instant::now(),
        budget_s: budget,
    };
    ctx.rep.verbose = replay;

    let t0 = std::time::Instant::now();
    match prop.as_str() {
        "C01" => eng_ring::c01(&mut ctx),
        "C02" => eng_ring::c02(&mut ctx),
        "C03" => eng_dp::c03(&mut ctx),
        "C04" => eng_dp::c04(&mut ctx),
        "C05" => eng_c05::c05(&mut ctx),
        "C06" => eng_recover::c06(&mut ctx),
        "C07" => eng_dp2::c07(&mut ctx),
        "C08" => eng_dp::c08(&mut ctx),
        "C17" => eng_dp2::c17(&mut ctx),
        "C11" => eng_c11::c11(&mut ctx),
        "C12" => eng_c12::c12(&mut ctx),
        "C13" => eng_hold::c13(&mut ctx),
        "C14" => eng_dp::c14(&mut ctx),
        "C09" => eng_codec::c09(&mut ctx),
        "C10" => eng_codec::c10(&mut ctx),
        "C15" => eng_c15::c15(&mut ctx),
        "C16" => eng_rx::c16(&mut ctx),
        "C18" => eng_c18::c18(&mut ctx),
        "C19" => eng_gsd::c19(&mut ctx),
        "C20" => eng_prm::c20(&mut ctx),
        // (build warm-up of the Miri leg: compiles everything, interprets nothing)
        "NOOP" => {}
        _ => {
            eprintln!("unknown property {}", prop);
            std::process::exit(2);
        }
    }
    let wall = t0.elapsed().as_secs_f64();

    let mut j = ctx.rep.to_json();
    if let J::O(ref mut kv) = j {
        kv.push(("wall_s".into(), J::F(wall)));
        kv.push(("log_records".into(), J::U(LOG_RECORDS.load(std::sync::atomic::Ordering::Relaxed))));
        kv.push(("loop_iterations_counted".into(), J::U(profirust::verif::burned())));
    }
    let text = j.render();
    match out {
        Some(path) => std::fs::write(&path, text).expect("write report"),
        None => {
            if replay {
                eprintln!(
                    "replay done: {} evaluations, {} violations",
                    ctx.rep.evaluations, ctx.rep.violation_count
                );
                for v in &ctx.rep.violations {
                    println!("VIOLATION-REPLAYED sig={} {}", v.sig, v.what);
                }
            } else {
                println!("{}", text);
            }
        }
    }
    if replay && ctx.rep.violation_count > 0 {
        std::process::exit(1);
    }
}
