//! C07 (bounded recovery of the DP master) and C17 (diagnostics decoding) workloads on the DP rig.

use crate::eng_dp::*;
use crate::refslave::*;
use crate::util::*;
use crate::vbus::*;
use crate::{Ctx, Tier};
use profirust::dp::PeripheralEvent;

// ------------------------------------------------------------------------------------------------
// C07
// ------------------------------------------------------------------------------------------------

pub const C07_ALPHABET: [Fault; 9] = [
    Fault::None,
    Fault::RequestLost,
    Fault::ReplyLost,
    Fault::ReplyCorrupted,
    Fault::PowerCycle,
    Fault::DiagPending,
    Fault::UserDiagRequest,
    Fault::WatchdogExpiry,
    // (a reply after the slot time: its bytes are in the receive buffer when the next request goes out)
    Fault::LateReply,
];

fn conforming_cfg(rng: &mut Rng, nper: usize) -> DpCfg {
    let mut cfg = gen_dp_cfg(rng, nper, nper, false);
    for p in cfg.periphs.iter_mut() {
        p.slave_cfg = p.cfg.clone();
        p.slave_ident = p.ident;
        p.present = true;
    }
    cfg
}

/// Run one history: `prefix` fault-free transactions, then `faults` (per slave), then fault-free.
/// Returns cycles needed to recover (None = violation already reported).
fn c07_history(rep: &mut Report, cfg: &DpCfg, scripts: Vec<Vec<Fault>>, absent_window: Option<(usize, u64, u64)>, seed: u64, verbose: bool) -> Option<u64> {
    let bufs = make_bufs(cfg);
    let mut run = DpRun::build(cfg, &bufs, seed, "C07");
    let mut rng = Rng::new(seed ^ 0xC07);
    for (i, sc) in scripts.iter().enumerate() {
        *run.slaves[i].script.borrow_mut() = sc.clone();
    }
    let k_bound = 12 + 3 * (cfg.retry_limit as u64 + 1);
    let mut steps = 0u64;
    let mut tf_cycle: Option<u64> = None;
    let mut last_bad_cycle = 0u64;
    let mut good_streak = 0u64;
    let mut last_cycles = 0u64;
    let mut events_seen: Vec<Vec<PeripheralEvent>> = vec![Vec::new(); cfg.periphs.len()];
    let mut absent_state = 0u8; // 0 before, 1 absent, 2 back
    let mut dx_at_streak_start = 0u64;
    let mut joint_at_tf: Option<u64> = None;
    loop {
        if !run.step(rep, &mut rng) {
            if run.dead {
                return None;
            }
            break;
        }
        steps += 1;
        // absence window in DP cycles
        if let Some((i, from, len)) = absent_window {
            if absent_state == 0 && run.cycles >= from {
                run.slaves[i].core.borrow_mut().present = false;
                absent_state = 1;
                events_seen[i].clear();
            } else if absent_state == 1 && run.cycles >= from + len {
                let mut c = run.slaves[i].core.borrow_mut();
                c.present = true;
                // a slave that was really gone comes back after a power cycle
                c.power_cycle();
                absent_state = 2;
            }
        }
        let faults_done = run.slaves.iter().all(|s| s.script.borrow().is_empty()) && (absent_window.is_none() || absent_state == 2);
        if faults_done && tf_cycle.is_none() {
            tf_cycle = Some(run.cycles);
            last_bad_cycle = run.cycles;
            joint_at_tf = Some(run.joint_state_fp());
        }
        if run.cycles != last_cycles {
            last_cycles = run.cycles;
            if let Some(tf) = tf_cycle {
                if run.all_running() {
                    if good_streak == 0 {
                        dx_at_streak_start = run.dx_events;
                    }
                    good_streak += 1;
                } else {
                    good_streak = 0;
                    last_bad_cycle = run.cycles;
                }
                if good_streak >= 30 {
                    break;
                }
                if run.cycles > tf + k_bound + 40 {
                    break;
                }
            }
        }
        if steps > 20_000_000 {
            rep.inconclusive("C07 history exceeded the step cap");
            return None;
        }
    }
    if verbose {
        dump_dp_trace(&run, 150);
    }
    let tf = tf_cycle?;
    let needed = last_bad_cycle.saturating_sub(tf);
    let describe = || format!("scripts {:?} absent {:?} ({})", scripts, absent_window, cfg.json().render());
    if good_streak < 30 {
        let states: Vec<String> = (0..cfg.periphs.len())
            .map(|i| {
                let h = run.handles[i];
                let p = run.dp().get_mut(h).verif_probe();
                format!("#{} {} retry {} fcb {} / slave {:?}", cfg.periphs[i].addr, p.state, p.retry_count, p.fcb, run.slaves[i].core.borrow().state)
            })
            .collect();
        let class = if states.iter().any(|s| s.contains("Offline")) { "stuck-offline" } else { "stuck-in-bringup" };
        // the joint state the first stuck pair sits in (master's peripheral state / slave's state)
        let joint = (0..cfg.periphs.len())
            .map(|i| {
                let h = run.handles[i];
                let p = run.dp().get_mut(h).verif_probe();
                (p.state, format!("{:?}", run.slaves[i].core.borrow().state))
            })
            .find(|(m, s)| !(m == &"DataExchange" && s == "DataExch"))
            .map(|(m, s)| format!("{}-{}", m, s))
            .unwrap_or_else(|| "none".into());
        rep.violation(
            format!("C07/not-recovered/{}/{}", class, joint),
            format!("{} DP cycles after the last fault the peripherals are still not all in data exchange (bound {} cycles): {:?}; {}", run.cycles - tf, k_bound, states, describe()),
        );
        return None;
    }
    if needed > k_bound {
        rep.violation("C07/recovered-too-late", format!("recovery took {} DP cycles (bound {}); {}", needed, k_bound, describe()));
        return None;
    }
    // DataExchanged events flow in the recovered window: one per peripheral and cycle
    let dx_in_streak = run.dx_events - dx_at_streak_start;
    if dx_in_streak + cfg.periphs.len() as u64 * 2 < 30 * cfg.periphs.len() as u64 {
        rep.violation("C07/no-data-exchange-events-after-recovery", format!("only {} DataExchanged events in 30 recovered cycles with {} peripherals; {}", dx_in_streak, cfg.periphs.len(), describe()));
        return None;
    }
    rep.max("C07_max_cycles_to_recover_over_bound", needed as f64 / k_bound as f64);
    rep.count("C07_histories_recovered");
    if let Some(j) = joint_at_tf {
        rep.nontrivial(j ^ fnv1a(format!("{:?}", scripts).as_bytes()));
    }
    Some(needed)
}

fn c07_exhaustive(ctx: &mut Ctx, depth: usize) {
    // every fault sequence of length `depth` over the alphabet, from each bring-up stage
    let prefixes = [0usize, 1, 2, 3, 4, 5, 9];
    let n_seq = C07_ALPHABET.len().pow(depth as u32) as u64;
    let mut idx = 0u64;
    for (pi, prefix) in prefixes.iter().enumerate() {
        for code in 0..n_seq {
            idx += 1;
            if !ctx.mine(idx) {
                continue;
            }
            let mut seq: Vec<Fault> = vec![Fault::None; *prefix];
            let mut c = code;
            for _ in 0..depth {
                seq.push(C07_ALPHABET[(c % C07_ALPHABET.len() as u64) as usize].clone());
                c /= C07_ALPHABET.len() as u64;
            }
            let mut rng = Rng::derive(ctx.seed, "c07x", (pi as u64) << 40 | code);
            let cfg = conforming_cfg(&mut rng, 1);
            ctx.rep.evaluations += 1;
            ctx.rep.cur_case = format!("c07x {} {} {} seed {}", prefix, depth, code, ctx.seed);
            if c07_history(&mut ctx.rep, &cfg, vec![seq], None, rng.next_u64(), false).is_some() {
                ctx.rep.count("C07_exhaustive_sequences");
            }
        }
    }
}

fn c07_random(rep: &mut Report, seed: u64, idx: u64, verbose: bool) {
    let mut rng = Rng::derive(seed, "c07r", idx);
    let nper = 1 + rng.usize(3);
    let cfg = conforming_cfg(&mut rng, nper);
    rep.evaluations += 1;
    rep.cur_case = format!("c07r {} seed {}", idx, seed);
    let mut scripts = Vec::new();
    for _ in 0..nper {
        let prefix = rng.usize(12);
        let n = 1 + rng.usize(60);
        let density = *rng.pick(&[10u64, 30, 60, 100]);
        let mut sc = vec![Fault::None; prefix];
        for _ in 0..n {
            if rng.below(100) < density {
                sc.push(rng.pick(&C07_ALPHABET[1..]).clone());
            } else {
                sc.push(Fault::None);
            }
        }
        if rng.chance(1, 6) {
            sc.push(Fault::LateReply);
        }
        scripts.push(sc);
    }
    let absent = if rng.chance(1, 4) { Some((rng.usize(nper), 5 + rng.below(40), 1 + rng.below(60))) } else { None };
    if verbose {
        eprintln!("{}\nscripts {:?} absent {:?}", cfg.json().render(), scripts, absent);
    }
    if c07_history(rep, &cfg, scripts.clone(), absent, rng.next_u64(), verbose).is_some() {
        rep.count("C07_random_histories");
        if absent.is_some() {
            rep.count("C07_absence_windows");
        }
        if idx % 128 < 2 {
            rep.sample(J::obj(vec![("kind", J::s("fault history then fault-free continuation")), ("config", cfg.json()), ("scripts", J::s(format!("{:?}", scripts))), ("absent_window_cycles", J::s(format!("{:?}", absent)))]));
        }
    }
}

/// Offline / Online / Configured reporting for a slave that stops answering and comes back.
fn c07_presence(rep: &mut Report, seed: u64, idx: u64) {
    let mut rng = Rng::derive(seed, "c07p", idx);
    let nper = 1 + rng.usize(3);
    let cfg = conforming_cfg(&mut rng, nper);
    rep.evaluations += 1;
    rep.cur_case = format!("c07p {} seed {}", idx, seed);
    let bufs = make_bufs(&cfg);
    let mut run = DpRun::build(&cfg, &bufs, rng.next_u64(), "C07");
    let victim = rng.usize(nper);
    let h = run.handles[victim];
    let gone_at = 8 + rng.below(30);
    let back_after = 4 + cfg.retry_limit as u64 * 2 + rng.below(40);
    let mut phase = 0u8;
    let mut evs: Vec<PeripheralEvent> = Vec::new();
    let mut steps = 0u64;
    let mut back_cycle = 0u64;
    loop {
        // collect the victim's events: they are consumed by the monitors in step(); read them through is_live transitions instead
        let live_before = run.dp().get_mut(h).is_live();
        let running_before = run.dp().get_mut(h).is_running();
        if !run.step(rep, &mut rng) {
            return;
        }
        steps += 1;
        let live = run.dp().get_mut(h).is_live();
        let running = run.dp().get_mut(h).is_running();
        if live_before && !live {
            evs.push(PeripheralEvent::Offline);
        }
        if !live_before && live {
            evs.push(PeripheralEvent::Online);
        }
        if !running_before && running {
            evs.push(PeripheralEvent::DataExchanged);
        }
        if phase == 0 && run.cycles >= gone_at && running {
            run.slaves[victim].core.borrow_mut().present = false;
            phase = 1;
            evs.clear();
        } else if phase == 1 && run.cycles >= gone_at + back_after {
            // must have been reported offline by now
            if !evs.contains(&PeripheralEvent::Offline) {
                rep.violation("C07/silent-peripheral-not-reported-offline", format!("#{} stopped answering {} DP cycles ago but is still live ({})", cfg.periphs[victim].addr, back_after, cfg.json().render()));
                return;
            }
            let mut c = run.slaves[victim].core.borrow_mut();
            c.present = true;
            c.power_cycle();
            phase = 2;
            back_cycle = run.cycles;
            evs.clear();
        } else if phase == 2 {
            if running {
                if evs.first() != Some(&PeripheralEvent::Online) {
                    rep.violation("C07/return-not-reported-online", format!("#{} came back and runs again but no Online transition was seen: {:?}", cfg.periphs[victim].addr, evs));
                    return;
                }
                rep.count("C07_offline_online_cycles_checked");
                rep.max("C07_max_cycles_to_return_over_bound", (run.cycles - back_cycle) as f64 / (12.0 + 3.0 * (cfg.retry_limit as f64 + 1.0)));
                let mut fp = Fp::new();
                fp.u(idx).u(gone_at).u(back_after).u(nper as u64);
                rep.nontrivial(fp.get());
                return;
            }
            if run.cycles > back_cycle + 12 + 3 * (cfg.retry_limit as u64 + 1) {
                rep.violation("C07/not-recovered/after-absence", format!("#{} answers again for {} DP cycles but is not back in data exchange ({})", cfg.periphs[victim].addr, run.cycles - back_cycle, cfg.json().render()));
                return;
            }
        }
        if steps > 20_000_000 {
            rep.inconclusive("C07 presence history exceeded the step cap");
            return;
        }
    }
}

pub fn c07(ctx: &mut Ctx) {
    let seed = ctx.seed;
    if let Some(only) = ctx.only.clone() {
        let s = only.iter().position(|x| x == "seed").and_then(|k| only.get(k + 1)).and_then(|x| x.parse().ok()).unwrap_or(seed);
        match only[0].as_str() {
            "c07r" => c07_random(&mut ctx.rep, s, only[1].parse().unwrap(), true),
            "c07p" => c07_presence(&mut ctx.rep, s, only[1].parse().unwrap()),
            "c07x" => {
                let prefix: usize = only[1].parse().unwrap();
                let depth: usize = only[2].parse().unwrap();
                let code: u64 = only[3].parse().unwrap();
                let mut seq: Vec<Fault> = vec![Fault::None; prefix];
                let mut c = code;
                for _ in 0..depth {
                    seq.push(C07_ALPHABET[(c % C07_ALPHABET.len() as u64) as usize].clone());
                    c /= C07_ALPHABET.len() as u64;
                }
                let prefixes = [0usize, 1, 2, 3, 4, 5, 9];
                let pi = prefixes.iter().position(|p| *p == prefix).unwrap_or(0);
                let mut rng = Rng::derive(s, "c07x", (pi as u64) << 40 | code);
                let cfg = conforming_cfg(&mut rng, 1);
                eprintln!("{}\n{:?}", cfg.json().render(), seq);
                c07_history(&mut ctx.rep, &cfg, vec![seq], None, rng.next_u64(), true);
            }
            _ => {}
        }
        return;
    }
    let depth = match ctx.tier {
        Tier::Quick => 3,
        Tier::Thorough => 5,
        Tier::Miri => 1,
    };
    c07_exhaustive(ctx, depth);
    let n = ctx.n(8000, 250_000, 2);
    for k in 0..n {
        c07_random(&mut ctx.rep, seed, ctx.shard + k * ctx.nshards, false);
    }
    let n = ctx.n(2500, 80_000, 1);
    for k in 0..n {
        c07_presence(&mut ctx.rep, seed, ctx.shard + k * ctx.nshards);
    }
}

// ------------------------------------------------------------------------------------------------
// C17
// ------------------------------------------------------------------------------------------------

/// Build the n-th extended-diagnostics test string of the systematic enumeration.
fn c17_ext(n: u64, rng: &mut Rng) -> Vec<u8> {
    if n < 256 {
        return vec![n as u8];
    }
    let n = n - 256;
    if n < 65536 {
        return vec![(n >> 8) as u8, n as u8];
    }
    let n = n - 65536;
    // all 256 header bytes x structured tails
    let h = (n % 256) as u8;
    let variant = n / 256;
    let len = (h & 0x3f) as usize;
    let mut v = vec![h];
    let body = match h >> 6 {
        2 => 2usize,
        _ => len.saturating_sub(1),
    };
    match variant % 8 {
        0 => v.extend(rng.bytes(body)),                     // exactly one block
        1 => v.extend(rng.bytes(body.saturating_sub(1))),   // one byte short
        2 => v.extend(rng.bytes(body + 1)),                 // one stray byte after it
        3 => {
            v.extend(rng.bytes(body));
            v.extend_from_slice(&[0x88, 0x41, 0x21]); // followed by a channel block
        }
        4 => {
            v.extend(rng.bytes(body));
            v.extend_from_slice(&[0x04, 1, 2, 3]); // followed by a device block
        }
        5 => {
            v.extend(rng.bytes(body));
            v.extend_from_slice(&[0x43, 0xff, 0x01]); // followed by an identifier block
        }
        6 => {
            v.extend(rng.bytes(body));
            v.push(0xc0 | rng.u8()); // followed by a reserved header
        }
        _ => {
            v.extend(rng.bytes(body));
            v.push(rng.u8() & 0x7f); // followed by a header whose block is cut off
        }
    }
    v.truncate(238);
    v
}

pub const C17_SYSTEMATIC: u64 = 256 + 65536 + 256 * 8;

pub fn c17(ctx: &mut Ctx) {
    let seed = ctx.seed;
    let replay_pdu: Option<Vec<u8>> = ctx.only.as_ref().and_then(|o| if o[0] == "pdu" { Some(unhex(&o[1])) } else { None });
    if ctx.only.is_some() && replay_pdu.is_none() {
        // random DP histories also check diagnostics; replayed through the C03 engine
        if ctx.only.as_ref().unwrap()[0] == "dp" {
            let o = ctx.only.clone().unwrap();
            let s = if o.len() >= 4 { o[3].parse().unwrap_or(seed) } else { seed };
            dp_random_case(&mut ctx.rep, s, o[1].parse().unwrap(), "C17", true);
        }
        return;
    }
    let (n_sys, n_rand) = match ctx.tier {
        Tier::Quick => (C17_SYSTEMATIC, 120_000u64),
        Tier::Thorough => (C17_SYSTEMATIC, 6_000_000),
        Tier::Miri => (64, 16),
    };
    // this shard's list of diagnostics PDUs
    let mut rng = Rng::derive(seed, "c17", ctx.shard);
    let mut pdus: Vec<Vec<u8>> = Vec::new();
    if let Some(p) = replay_pdu {
        pdus.push(p);
    } else {
        let total = n_sys + (n_rand as f64 * ctx.scale) as u64;
        for n in 0..total {
            if !ctx.mine(n) {
                continue;
            }
            let ext = if n < n_sys {
                c17_ext(if ctx.tier == Tier::Miri { n * 1031 % C17_SYSTEMATIC } else { n }, &mut rng)
            } else {
                let l = match rng.usize(4) {
                    0 => rng.usize(8),
                    1 => rng.usize(64),
                    _ => rng.usize(239),
                };
                let mut e = rng.bytes(l);
                // bias towards well-formed block chains
                if rng.bool() {
                    e.clear();
                    while e.len() < l {
                        match rng.usize(4) {
                            0 => e.extend_from_slice(&[0x80 | rng.u8() & 0x3f, rng.u8(), rng.u8()]),
                            1 => {
                                let k = 1 + rng.usize(8);
                                e.push(k as u8);
                                e.extend(rng.bytes(k - 1));
                            }
                            2 => {
                                let k = 1 + rng.usize(8);
                                e.push(0x40 | k as u8);
                                e.extend(rng.bytes(k - 1));
                            }
                            _ => e.push(rng.u8()),
                        }
                    }
                    e.truncate(238);
                }
                e
            };
            // status bytes: Ext_Diag set (mostly), harmless other bits
            let mut s1 = 0x08 | (rng.u8() & 0xb1);
            let mut s2 = 0x04 | (rng.u8() & 0xfa);
            if n % 16 == 5 {
                s1 &= !0x08; // Ext_Diag flag clear although data follows
            }
            if n % 64 == 9 {
                s2 &= !0x04; // permanent bit missing ("inconsistent diagnostics")
            }
            if n % 50 == 7 {
                s2 |= 0x01; // Prm_Req: the master restarts the bring-up
            }
            if n % 70 == 3 {
                s1 |= *rng.pick(&[0x02u8, 0x04, 0x40]); // not ready / cfg fault / prm fault
            }
            let mut pdu = vec![s1, s2, rng.u8(), if rng.chance(1, 4) { 255 } else { rng.u8() }, rng.u8(), rng.u8()];
            pdu.extend_from_slice(&ext);
            pdus.push(pdu);
        }
    }
    // the rig: one peripheral; buffer size varies over the run by rebuilding every `chunk` PDUs
    let chunk = 4000usize;
    let mut pos = 0usize;
    let mut case_no = 0u64;
    while pos < pdus.len() {
        if ctx.over_budget() {
            break;
        }
        let end = (pos + chunk).min(pdus.len());
        let list = &pdus[pos..end];
        pos = end;
        case_no += 1;
        let mut crng = Rng::derive(seed, "c17rig", ctx.shard * 1000 + case_no);
        let mut cfg = gen_dp_cfg(&mut crng, 1, 1, false);
        cfg.periphs[0].present = true;
        cfg.periphs[0].slave_cfg = cfg.periphs[0].cfg.clone();
        cfg.periphs[0].slave_ident = cfg.periphs[0].ident;
        cfg.periphs[0].diag_buf = *crng.pick(&[0usize, 1, 2, 3, 8, 32, 238, 244]);
        cfg.watchdog_ms = None;
        let bufs = make_bufs(&cfg);
        let mut run = DpRun::build(&cfg, &bufs, crng.next_u64(), "C17");
        let h = run.handles[0];
        let mut k = 0usize;
        let mut steps = 0u64;
        let mut checked_before = 0u64;
        let mut armed = false;
        ctx.rep.evaluations += 1;
        while k < list.len() {
            if ctx.over_budget() {
                break;
            }
            ctx.rep.cur_case = format!("pdu {}", hex(&list[k]));
            if !run.step(&mut ctx.rep, &mut crng) {
                break;
            }
            steps += 1;
            if !armed {
                // next PDU: served for every diagnostics request from now on
                run.slaves[0].core.borrow_mut().diag_override = Some(list[k].clone());
                checked_before = run.mon[0].diag_checked;
                armed = true;
            }
            // keep asking for diagnostics whenever the peripheral runs
            if steps % 8 == 0 {
                let p = run.dp().get_mut(h);
                if p.is_running() {
                    p.request_diagnostics();
                }
            }
            if run.mon[0].diag_checked > checked_before {
                // this PDU went through the master and was compared
                let pdu = &list[k];
                let ext = &pdu[6..];
                if ext.first().map(|h| h >> 6 != 3).unwrap_or(false) && pdu[0] & 0x08 != 0 {
                    let mut fp = Fp::new();
                    fp.b(pdu).u(cfg.periphs[0].diag_buf as u64);
                    ctx.rep.nontrivial(fp.get());
                }
                if k == 0 && case_no <= 2 {
                    ctx.rep.sample(J::obj(vec![("kind", J::s("diagnostics PDU through the DP path")), ("pdu", J::hex(pdu)), ("diag_buffer_bytes", J::U(cfg.periphs[0].diag_buf as u64))]));
                }
                k += 1;
                armed = false;
            }
            if steps > 400 * chunk as u64 + 2_000_000 {
                ctx.rep.inconclusive(format!("C17 rig made no progress at PDU {}", hex(&list[k.min(list.len() - 1)])));
                break;
            }
        }
        ctx.rep.add("dp_polls", run.world.polls);
        if run.dead {
            // the violation was reported by step(); continue with the next chunk
            ctx.rep.count("C17_rigs_died");
        }
    }
    // plus: too-short diagnostics PDUs must be rejected without a crash (random DP histories with ShortPdu cover the master side)
    let n = ctx.n(300, 30_000, 1);
    for j in 0..n {
        if ctx.over_budget() {
            break;
        }
        dp_random_case(&mut ctx.rep, seed, 1_000_000 + ctx.shard + j * ctx.nshards, "C17", false);
    }
}
