//! C20 — PrmBuilder packs the user-parameter block bit-exactly.
//!
//! Oracle: a reference packer (constants overlaid in order, then every reference's default, field by
//! field; `set_prm` changes exactly the field's bits) compared with `as_bytes()` after *every* call;
//! `Err` ⇔ value outside constraint / data-type range, unknown name, missing / unknown text; block
//! unchanged after `Err`; never a panic.  A second "defect model" (BitArea written as a whole byte)
//! is used only to classify mismatches for the known finding: a mismatch is attributed to it only if
//! the defect model reproduces the observed block exactly.

use crate::util::*;
use crate::{Ctx, Tier};
use gsd_parser::{PrmBuilder, PrmValueConstraint, UserPrmData, UserPrmDataDefinition, UserPrmDataType as T};
use std::collections::BTreeMap;
use std::sync::Arc;

fn type_range(t: T) -> (i64, i64) {
    match t {
        T::Unsigned8 => (0, 255),
        T::Unsigned16 => (0, 65535),
        T::Unsigned32 => (0, u32::MAX as i64),
        T::Signed8 => (-128, 127),
        T::Signed16 => (-32768, 32767),
        T::Signed32 => (i32::MIN as i64, i32::MAX as i64),
        T::Bit(_) => (0, 1),
        T::BitArea(a, b) => (0, (1i64 << (b - a + 1)) - 1),
    }
}

fn type_size(t: T) -> usize {
    match t {
        T::Unsigned8 | T::Signed8 | T::Bit(_) | T::BitArea(..) => 1,
        T::Unsigned16 | T::Signed16 => 2,
        T::Unsigned32 | T::Signed32 => 4,
    }
}

/// Reference field write.  `defect_bitarea`: model of the known finding (whole byte replaced).
fn ref_write(block: &mut [u8], off: usize, t: T, v: i64, defect_bitarea: bool) -> Result<(), ()> {
    let (lo, hi) = type_range(t);
    if v < lo || v > hi {
        return Err(());
    }
    match t {
        T::Unsigned8 | T::Signed8 => block[off] = v as u8,
        T::Unsigned16 | T::Signed16 => {
            block[off] = (v >> 8) as u8;
            block[off + 1] = v as u8;
        }
        T::Unsigned32 | T::Signed32 => {
            block[off] = (v >> 24) as u8;
            block[off + 1] = (v >> 16) as u8;
            block[off + 2] = (v >> 8) as u8;
            block[off + 3] = v as u8;
        }
        T::Bit(b) => {
            block[off] = (block[off] & !(1u8 << b)) | ((v as u8) << b);
        }
        T::BitArea(a, b) => {
            if defect_bitarea {
                block[off] = (v as u8) << a;
            } else {
                let width = b - a + 1;
                let mask = (((1u16 << width) - 1) as u8) << a;
                block[off] = (block[off] & !mask) | (((v as u8) << a) & mask);
            }
        }
    }
    Ok(())
}

struct Model {
    block: Vec<u8>,
    defect: bool,
}

impl Model {
    fn new(desc: &UserPrmData, defect: bool) -> Result<Model, ()> {
        let mut len = 0;
        for (off, c) in &desc.data_const {
            len = len.max(off + c.len());
        }
        for (off, r) in &desc.data_ref {
            len = len.max(off + type_size(r.data_type));
        }
        let mut block = vec![0u8; len];
        for (off, c) in &desc.data_const {
            block[*off..off + c.len()].copy_from_slice(c);
        }
        for (off, r) in &desc.data_ref {
            ref_write(&mut block, *off, r.data_type, r.default_value, defect)?;
        }
        Ok(Model { block, defect })
    }

    fn set(&mut self, desc: &UserPrmData, name: &str, v: i64) -> Result<(), &'static str> {
        let Some((off, def)) = desc.data_ref.iter().find(|(_, r)| r.name == name) else {
            return Err("unknown-name");
        };
        let ok = match &def.constraint {
            PrmValueConstraint::MinMax(a, b) => *a <= v && v <= *b,
            PrmValueConstraint::Enum(vs) => vs.contains(&v),
            PrmValueConstraint::Unconstrained => true,
        };
        if !ok {
            return Err("constraint");
        }
        ref_write(&mut self.block, *off, def.data_type, v, self.defect).map_err(|_| "type-range")
    }

    fn set_text(&mut self, desc: &UserPrmData, name: &str, text: &str) -> Result<(), &'static str> {
        let Some((_, def)) = desc.data_ref.iter().find(|(_, r)| r.name == name) else {
            return Err("unknown-name");
        };
        let Some(texts) = &def.text_ref else {
            return Err("no-texts");
        };
        let Some(v) = texts.get(text) else {
            return Err("unknown-text");
        };
        self.set(desc, name, *v)
    }
}

fn tname(t: T) -> &'static str {
    match t {
        T::Unsigned8 => "u8",
        T::Unsigned16 => "u16",
        T::Unsigned32 => "u32",
        T::Signed8 => "i8",
        T::Signed16 => "i16",
        T::Signed32 => "i32",
        T::Bit(_) => "bit",
        T::BitArea(..) => "bitarea",
    }
}

#[derive(Clone, Debug)]
enum Call {
    Set(String, i64),
    Text(String, String),
}

struct Layout {
    desc: UserPrmData,
    calls: Vec<Call>,
}

fn gen_type(rng: &mut Rng) -> T {
    match rng.usize(10) {
        0 => T::Unsigned8,
        1 => T::Unsigned16,
        2 => T::Unsigned32,
        3 => T::Signed8,
        4 => T::Signed16,
        5 => T::Signed32,
        6 | 7 => T::Bit(rng.usize(8) as u8),
        _ => {
            let a = rng.usize(8) as u8;
            let b = a + rng.usize(8 - a as usize) as u8;
            T::BitArea(a, b)
        }
    }
}

fn interesting_value(rng: &mut Rng, t: T, c: &PrmValueConstraint) -> i64 {
    let (lo, hi) = type_range(t);
    match rng.usize(12) {
        0 => lo,
        1 => hi,
        2 => lo - 1,
        3 => hi + 1,
        4 => 0,
        5 => -1,
        6 => match c {
            PrmValueConstraint::MinMax(a, b) => *rng.pick(&[*a, *b, a - 1, b + 1]),
            PrmValueConstraint::Enum(v) if !v.is_empty() => *rng.pick(v),
            _ => rng.range(lo, hi),
        },
        7 => *rng.pick(&[i64::MIN, i64::MAX, 256, 65536, 1 << 32, -(1 << 31) - 1, 32768, -32769, 128, -129, 255, 65535]),
        _ => rng.range(lo, hi),
    }
}

fn gen_layout(rng: &mut Rng) -> Layout {
    let nrefs = rng.usize(9);
    let nconst = rng.usize(4);
    let span = 1 + rng.usize(12);
    let mut desc = UserPrmData::default();
    for _ in 0..nconst {
        let off = rng.usize(span);
        let len = rng.usize(6);
        desc.data_const.push((off, rng.bytes(len)));
    }
    // a few shared text tables
    let ntexts = rng.usize(3);
    let texts: Vec<Arc<BTreeMap<String, i64>>> = (0..ntexts)
        .map(|_| {
            let mut m = BTreeMap::new();
            for k in 0..1 + rng.usize(5) {
                m.insert(format!("text{}", k), rng.range(-3, 300));
            }
            Arc::new(m)
        })
        .collect();
    for i in 0..nrefs {
        let t = gen_type(rng);
        let (lo, hi) = type_range(t);
        // bit fields like to share a byte
        let off = if matches!(t, T::Bit(_) | T::BitArea(..)) && rng.chance(2, 3) {
            rng.usize(2.min(span))
        } else {
            rng.usize(span)
        };
        let constraint = match rng.usize(4) {
            0 => PrmValueConstraint::Unconstrained,
            1 => {
                let a = rng.range(lo, hi);
                let b = rng.range(a, hi);
                PrmValueConstraint::MinMax(a, b)
            }
            2 => {
                // partly outside the type range
                let a = rng.range(lo - 3, hi);
                let b = rng.range(a.max(lo), hi.saturating_add(3));
                PrmValueConstraint::MinMax(a, b)
            }
            _ => PrmValueConstraint::Enum((0..1 + rng.usize(4)).map(|_| rng.range(lo - 1, (hi + 1).min(lo + 40))).collect()),
        };
        let default_value = if rng.chance(1, 25) {
            *rng.pick(&[lo - 1, hi + 1])
        } else if rng.chance(1, 4) {
            *rng.pick(&[lo, hi])
        } else {
            rng.range(lo, hi.min(lo + 1000))
        };
        // occasionally duplicate a name (first one wins)
        // ... or use a name that differs from an earlier one only in the case of its letters (a different name)
        let name = if i > 0 && rng.chance(1, 12) {
            format!("p{}", rng.usize(i))
        } else if i > 0 && rng.chance(1, 8) {
            format!("P{}", rng.usize(i))
        } else {
            format!("p{}", i)
        };
        desc.data_ref.push((
            off,
            Arc::new(UserPrmDataDefinition {
                name,
                data_type: t,
                default_value,
                constraint,
                text_ref: if !texts.is_empty() && rng.chance(1, 3) { Some(rng.pick(&texts).clone()) } else { None },
                changeable: true,
                visible: true,
            }),
        ));
    }
    desc.length = rng.u8();
    let ncalls = 4 + rng.usize(12);
    let mut calls = Vec::new();
    for _ in 0..ncalls {
        if desc.data_ref.is_empty() || rng.chance(1, 12) {
            // an undeclared name: something else entirely, or a declared name in different case
            let unknown = if desc.data_ref.is_empty() || rng.bool() {
                "nope".to_string()
            } else {
                let n = rng.pick(&desc.data_ref).1.name.clone();
                if n.starts_with('p') { n.to_uppercase() } else { n.to_lowercase() }
            };
            calls.push(if rng.bool() { Call::Set(unknown, rng.range(-5, 5)) } else { Call::Text(unknown, "text0".into()) });
            continue;
        }
        let (_, def) = rng.pick(&desc.data_ref).clone();
        if rng.chance(1, 4) {
            let text = match &def.text_ref {
                Some(m) if rng.chance(3, 4) => m.keys().nth(rng.usize(m.len())).unwrap().clone(),
                _ => "no such text".to_string(),
            };
            calls.push(Call::Text(def.name.clone(), text));
        } else {
            calls.push(Call::Set(def.name.clone(), interesting_value(rng, def.data_type, &def.constraint)));
        }
    }
    Layout { desc, calls }
}

fn layout_json(l: &Layout) -> J {
    J::obj(vec![
        (
            "consts",
            J::A(l.desc.data_const.iter().map(|(o, c)| J::s(format!("@{} {}", o, hex(c)))).collect()),
        ),
        (
            "refs",
            J::A(l
                .desc
                .data_ref
                .iter()
                .map(|(o, r)| J::s(format!("@{} {} {:?} default {} {:?}{}", o, r.name, r.data_type, r.default_value, r.constraint, if r.text_ref.is_some() { " +texts" } else { "" })))
                .collect()),
        ),
        ("calls", J::A(l.calls.iter().map(|c| J::s(format!("{:?}", c))).collect())),
    ])
}

fn classify(lib: &[u8], correct: &Model, defect: &Model) -> &'static str {
    if lib == correct.block.as_slice() {
        "ok"
    } else if lib == defect.block.as_slice() {
        "bitarea-write-replaces-whole-byte"
    } else if lib.len() != correct.block.len() {
        "block-length"
    } else {
        "other"
    }
}

fn run_layout(rep: &mut Report, l: &Layout) {
    rep.evaluations += 1;
    let desc = &l.desc;
    let correct = Model::new(desc, false);
    let defect = Model::new(desc, true);
    let lib = catch(|| PrmBuilder::new(desc).map(|b| b.as_bytes().to_vec()));
    let lib = match lib {
        Ok(l) => l,
        Err(p) => {
            rep.violation(format!("C20/new/panic/{}", p.class()), format!("PrmBuilder::new panicked: {} on {}", p.message, layout_json(l).render()));
            return;
        }
    };
    let (mut correct, mut defect) = match (lib.as_ref(), correct, defect) {
        (Err(_), Err(_), _) => {
            rep.count("new_rejected_out_of_range_default");
            return;
        }
        (Ok(_), Err(_), _) => {
            rep.violation("C20/new/accepted-out-of-range-default", format!("a default outside the data type's range was accepted: {}", layout_json(l).render()));
            return;
        }
        (Err(_), Ok(_), _) => {
            let which = desc.data_ref.iter().map(|(_, r)| tname(r.data_type)).collect::<Vec<_>>().join(",");
            rep.violation("C20/new/rejected-valid-default", format!("all defaults are inside their type ranges but new() failed (types {}): {}", which, layout_json(l).render()));
            return;
        }
        (Ok(_), Ok(c), Ok(d)) => (c, d),
        (Ok(_), Ok(_), Err(_)) => unreachable!(),
    };
    let bytes = lib.unwrap();
    let has_shared_bits = {
        let mut per_byte: BTreeMap<usize, usize> = BTreeMap::new();
        for (o, r) in &desc.data_ref {
            if matches!(r.data_type, T::Bit(_) | T::BitArea(..)) {
                *per_byte.entry(*o).or_default() += 1;
            }
        }
        per_byte.values().any(|n| *n >= 2)
    };
    let has_multibyte = desc.data_ref.iter().any(|(_, r)| type_size(r.data_type) > 1);
    match classify(&bytes, &correct, &defect) {
        "ok" => {}
        c => {
            rep.violation(
                format!("C20/new/block-differs/{}", c),
                format!("after new(): block {} but the GSD definitions say {}: {}", hex(&bytes), hex(&correct.block), layout_json(l).render()),
            );
            if c != "bitarea-write-replaces-whole-byte" {
                return;
            }
        }
    }
    // call sequence on one builder, compared after every call
    let mut b = match catch(|| PrmBuilder::new(desc)) {
        Ok(Ok(b)) => b,
        _ => return,
    };
    for (k, call) in l.calls.iter().enumerate() {
        let before = b.as_bytes().to_vec();
        let (lib_res, want_c, want_d) = match call {
            Call::Set(n, v) => (catch(|| b.set_prm(n, *v).map(|_| ()).map_err(|e| format!("{}", e))), correct.set(desc, n, *v), defect.set(desc, n, *v)),
            Call::Text(n, t) => (catch(|| b.set_prm_from_text(n, t).map(|_| ()).map_err(|e| format!("{}", e))), correct.set_text(desc, n, t), defect.set_text(desc, n, t)),
        };
        let _ = want_d;
        let lib_res = match lib_res {
            Ok(r) => r,
            Err(p) => {
                rep.violation(format!("C20/set/panic/{}", p.class()), format!("call {} {:?} panicked: {} on {}", k, call, p.message, layout_json(l).render()));
                return;
            }
        };
        let after = b.as_bytes().to_vec();
        let ty = match call {
            Call::Set(n, _) | Call::Text(n, _) => desc.data_ref.iter().find(|(_, r)| &r.name == n).map(|(_, r)| tname(r.data_type)).unwrap_or("none"),
        };
        match (&lib_res, &want_c) {
            (Ok(()), Err(why)) => {
                rep.violation(format!("C20/set/accepted-invalid/{}/{}", why, ty), format!("call {} {:?} was accepted but must be rejected ({}): {}", k, call, why, layout_json(l).render()));
                return;
            }
            (Err(e), Ok(())) => {
                rep.violation(format!("C20/set/rejected-valid/{}", ty), format!("call {} {:?} was rejected ({}) but is valid: {}", k, call, e, layout_json(l).render()));
                return;
            }
            (Err(_), Err(why)) => {
                rep.count(&format!("rejected_{}", why));
                if after != before {
                    rep.violation("C20/set/block-changed-on-error", format!("call {} {:?} failed but changed the block {} -> {}", k, call, hex(&before), hex(&after)));
                    return;
                }
            }
            (Ok(()), Ok(())) => {
                rep.count("accepted_sets");
                rep.count(&format!("accepted_{}", ty));
            }
        }
        match classify(&after, &correct, &defect) {
            "ok" => {}
            c => {
                rep.violation(
                    format!("C20/set/block-differs/{}", c),
                    format!("after call {} {:?}: block {} -> {} but the definitions say {}: {}", k, call, hex(&before), hex(&after), hex(&correct.block), layout_json(l).render()),
                );
                if c != "bitarea-write-replaces-whole-byte" {
                    return;
                }
            }
        }
        rep.count("calls_checked");
    }
    // into_bytes agrees with as_bytes
    let last = b.as_bytes().to_vec();
    if b.into_bytes() != last {
        rep.violation("C20/into-bytes-differs", "into_bytes() != as_bytes()");
    }
    if has_shared_bits || has_multibyte {
        let mut fp = Fp::new();
        fp.s(&layout_json(l).render());
        rep.nontrivial(fp.get());
        if has_shared_bits {
            rep.count("layouts_with_bit_fields_sharing_a_byte");
        }
        if has_multibyte {
            rep.count("layouts_with_multibyte_fields");
        }
    }
}

pub fn c20(ctx: &mut Ctx) {
    let seed = ctx.seed;
    if let Some(only) = ctx.only.clone() {
        if only[0] == "systematic" {
            systematic(&mut ctx.rep);
            return;
        }
        let idx: u64 = only[1].parse().unwrap();
        let mut rng = Rng::derive(seed_of(&only, seed), "C20", idx);
        let l = gen_layout(&mut rng);
        eprintln!("{}", layout_json(&l).render());
        ctx.rep.cur_case = format!("layout {} seed {}", idx, seed_of(&only, seed));
        run_layout(&mut ctx.rep, &l);
        return;
    }
    // systematic part: every data type alone at offset 0 with every boundary value
    // (not under Miri: thousands of calls, minutes per hundred there; the random layouts reach the same code)
    if ctx.shard == 0 && ctx.tier != Tier::Miri {
        systematic(&mut ctx.rep);
    }
    let n = ctx.n(400_000, 20_000_000, 150);
    for k in 0..n {
        if ctx.over_budget() {
            break;
        }
        let idx = ctx.shard + k * ctx.nshards;
        let mut rng = Rng::derive(seed, "C20", idx);
        let l = gen_layout(&mut rng);
        ctx.rep.cur_case = format!("layout {} seed {}", idx, seed);
        run_layout(&mut ctx.rep, &l);
        if k < 2 {
            ctx.rep.sample(layout_json(&l));
        }
    }
    let _ = Tier::Quick;
}

fn seed_of(only: &[String], default: u64) -> u64 {
    if only.len() >= 4 && only[2] == "seed" {
        only[3].parse().unwrap_or(default)
    } else {
        default
    }
}

/// Every data type alone, every boundary value, over three background bytes.
fn systematic(rep: &mut Report) {
    let mut types = vec![T::Unsigned8, T::Unsigned16, T::Unsigned32, T::Signed8, T::Signed16, T::Signed32];
    for b in 0..8 {
        types.push(T::Bit(b));
    }
    for a in 0..8u8 {
        for b in a..8u8 {
            types.push(T::BitArea(a, b));
        }
    }
    for t in types {
        let (lo, hi) = type_range(t);
        for bg in [0x00u8, 0xff, 0xa5] {
            let mut values = vec![lo, hi, lo - 1, hi + 1, 0, 1, -1, i64::MIN, i64::MAX];
            if hi - lo < 300 {
                values.extend(lo..=hi);
            }
            for default in [lo, hi] {
                let desc = UserPrmData {
                    length: 0,
                    data_const: vec![(0, vec![bg; 5])],
                    data_ref: vec![(
                        1,
                        Arc::new(UserPrmDataDefinition {
                            name: "x".into(),
                            data_type: t,
                            default_value: default,
                            constraint: PrmValueConstraint::Unconstrained,
                            text_ref: None,
                            changeable: true,
                            visible: true,
                        }),
                    )],
                };
                let l = Layout {
                    desc,
                    calls: values.iter().map(|v| Call::Set("x".into(), *v)).collect(),
                };
                rep.cur_case = format!("systematic {:?} bg {:02x} default {}", t, bg, default);
                run_layout(rep, &l);
                rep.count("systematic_layouts");
            }
        }
    }
}
