//! C15 — applications get matched replies, one at a time, in fair round-robin.
//!
//! One real station (alone, or in a 2-/3-ring played by the environment) with 0..3 scripted
//! applications behind the tap and peers that answer correctly, late, with foreign source or
//! destination, with requests or tokens instead of responses, with garbage, or not at all.
//!   P1 transmit_telegram only while the station holds the token and no request is outstanding
//!   P2 reply / time-out only to the application whose request is outstanding, at most one of them
//!   P3 a delivered reply is SC or a response with SA = addressed station and DA = this station
//!   P4 round-robin: cyclic index order continuing where the previous visit stopped; an application
//!      that declined is not asked again in that visit; no ask after every application declined

use crate::eng_ring::{RingApp, TrafficApp};
use crate::eng_script::*;
use crate::refcodec::RTel;
use crate::sim::{Tap, TapEv};
use crate::util::*;
use crate::vbus::*;
use crate::{Ctx, Tier};

pub fn c15_case(rep: &mut Report, seed: u64, idx: u64, verbose: bool) {
    let mut rng = Rng::derive(seed, "c15", idx);
    let mut cfg = ScriptCfg::gen(&mut rng, None);
    cfg.ttr_bits = *rng.pick(&[256u32, 256, 2000, 20_000, 200_000]);
    let ts = cfg.ts;
    let napps = rng.usize(4);
    let n_env = rng.usize(3); // 0 = alone, 1 = 2-ring, 2 = 3-ring
    rep.evaluations += 1;
    // peers: correct responders, hostile responders, silent addresses
    let mut used: Vec<u8> = vec![ts];
    let mut pick_addr = |rng: &mut Rng, below: u8, used: &mut Vec<u8>| loop {
        let a = rng.below(below as u64) as u8;
        if !used.contains(&a) {
            used.push(a);
            return a;
        }
    };
    let env_ring: Vec<u8> = {
        let mut v: Vec<u8> = (0..n_env).map(|_| pick_addr(&mut rng, cfg.hsa.max(4), &mut used)).collect();
        v.sort();
        v
    };
    let good: Vec<u8> = (0..1 + rng.usize(2)).map(|_| pick_addr(&mut rng, 126, &mut used)).collect();
    let hostile: Vec<u8> = (0..1 + rng.usize(2)).map(|_| pick_addr(&mut rng, 126, &mut used)).collect();
    let silent: Vec<u8> = vec![pick_addr(&mut rng, 126, &mut used)];
    let mut peers: Vec<u8> = Vec::new();
    peers.extend(&good);
    peers.extend(&hostile);
    peers.extend(&hostile);
    peers.extend(&silent);
    peers.extend(&env_ring);
    let apps: Vec<Tap<TrafficApp>> = (0..napps)
        .map(|k| {
            let appetite = *rng.pick(&[3u8, 3, 1, 0]);
            Tap::new(TrafficApp::new(rng.next_u64() ^ k as u64, appetite, peers.clone(), rng.chance(3, 4), 12))
        })
        .collect();
    let descr = format!("{} apps {} (appetites {:?}, srd {:?}) env ring {:?} good {:?} hostile {:?} silent {:?}", cfg.json().render(), napps, apps.iter().map(|a| a.inner.appetite).collect::<Vec<_>>(), apps.iter().map(|a| a.inner.srd).collect::<Vec<_>>(), env_ring, good, hostile, silent);
    if verbose {
        eprintln!("{}", descr);
    }
    let app = match napps {
        0 => RingApp::Multi(vec![]),
        1 if rng.bool() => RingApp::Traffic(apps.into_iter().next().unwrap()),
        _ => RingApp::Multi(apps),
    };
    let mut rig = Rig::new(&cfg, app, rng.next_u64());
    for a in &good {
        add_responder(&mut rig, *a, 0);
    }
    for a in &hostile {
        add_responder(&mut rig, *a, 2);
    }
    // ---- bring-up ----
    let ns = match bring_up_by_claim(&mut rig, &env_ring) {
        Ok(ns) => ns,
        Err(e) => {
            if rig.panicked().is_none() {
                rep.inconclusive(format!("C15 bring-up failed: {}", e));
            } else {
                rep.count("C15_panic_seen");
            }
            return;
        }
    };
    if n_env > 0 && ns.is_none() {
        rep.inconclusive("C15 bring-up: no successor");
        return;
    }
    // ---- run: the environment returns the token whenever it gets it ----
    // holding intervals of the station: (start, end) in bus time
    let mut holdings: Vec<(Us, Us)> = Vec::new();
    // parallel to `holdings`: did the holding end with a token pass (as opposed to a back-off)?
    let mut passed: Vec<bool> = Vec::new();
    let mut cut_at: Option<Us> = None;
    let visits = 20 + rng.usize(60);
    let mut hold_start: Us;
    let mut learnt = n_env < 2;
    // after bring-up the token is with the environment (or the station passed it to itself)
    let mut token_at_env = n_env > 0;
    let mut cur_env = ns.unwrap_or(ts);
    hold_start = rig.last_end();
    let mut v = 0;
    let mut guard = 0u64;
    while v < visits {
        guard += 1;
        if guard > 100_000 {
            rep.inconclusive("C15 case exceeded the frame cap");
            return;
        }
        if rig.panicked().is_some() {
            rep.count("C15_panic_seen");
            return;
        }
        if token_at_env {
            // walk through the env ring back to TS (the last hop possibly twice while TS is learning)
            let mut all: Vec<u8> = env_ring.clone();
            all.push(ts);
            all.sort();
            let mut cur = cur_env;
            loop {
                let k = all.iter().position(|x| *x == cur).unwrap();
                let next = all[(k + 1) % all.len()];
                let e = rig.env_token(cur, next, 40);
                if next == ts {
                    if !learnt {
                        // first token from a station TS has never heard of: offered twice
                        rig.run_until(e + cfg.tslot() + cfg.lat());
                        let e2 = rig.env_token(cur, next, 34);
                        hold_start = e2;
                        learnt = true;
                    } else {
                        hold_start = e;
                    }
                    break;
                }
                cur = next;
            }
            token_at_env = false;
        }
        // station holds: consume frames until the token pass
        let dl = rig.now() + cfg.tslot() * 2 + 2 * cfg.lat() + cfg.bits(60);
        let Some(f) = rig.next_station_tx(dl) else {
            if rig.panicked().is_some() {
                rep.count("C15_panic_seen");
                return;
            }
            // still holding (e.g. a late reply keeps trickling in and extends the slot time)?
            let pr = rig.fdl().verif_probe();
            if pr.have_token || pr.state == "PassToken" {
                continue;
            }
            // after an unexpected telegram the station backs off to idle and waits for the token /
            // the time-out: give it the token again (2-ring) or wait for its claim
            // (the holding that ended without a token pass still was a holding)
            holdings.push((hold_start, rig.now()));
            passed.push(false);
            if n_env > 0 {
                token_at_env = true;
                // the environment "still has" the token: whoever had it last passes it again
                continue;
            }
            let dl2 = rig.now() + 2 * cfg.token_lost_timeout() + 4 * cfg.tslot();
            match rig.next_station_tx(dl2) {
                Some(f2) if is_token(&f2, ts, ts) => {
                    rep.count("C15_reclaims_after_backoff");
                    hold_start = f2.start;
                    continue;
                }
                _ => {
                    rep.inconclusive("C15: station silent beyond its token time-out");
                    return;
                }
            }
        };
        match &f.decoded {
            Some(RTel::Token { sa, da }) if *sa == ts && *da != ts && rig.pass_retries.iter().any(|t| *t >= f.start - 1 && *t <= f.end + cfg.period) => {
                // The station repeats a token pass although the environment has taken the token and
                // moved it on: it did not hear that (a late reply of a hostile peer sat in front of
                // the environment's telegram and made both undecodable).  From here on station and
                // environment disagree about who holds the token; what follows is not judged.
                let _ = da;
                rep.count("C15_cases_cut_at_unheard_token_take_over");
                cut_at = Some(f.start);
                break;
            }
            Some(RTel::Token { sa, da }) if *sa == ts => {
                holdings.push((hold_start, f.start));
                // (a token frame of the station that follows a token it never decoded -- garbage of a
                //  hostile peer in front of it -- is the retry of its previous pass, not the end of a visit)
                passed.push(true);
                v += 1;
                if *da == ts {
                    hold_start = f.start;
                } else {
                    token_at_env = true;
                    cur_env = *da;
                    if !env_ring.contains(da) {
                        // hostile peers can make themselves known (tokens, witnessed passes); the
                        // environment does not play them: stop here and judge what was recorded
                        rep.count("C15_cases_ended_early_token_passed_to_hostile_peer");
                        break;
                    }
                }
            }
            _ => {
                // application request or GAP poll; replies come from the devices by themselves
            }
        }
    }
    // ---- monitors over the tap ----
    // A hostile peer that answers with a token frame addressed to the station can hand it a second token (the
    // station accepts it by its own rules, C11).  Seen by the probe as "uses the token" outside every
    // holding reconstructed from the environment's tokens: from then on there are two token holders
    // and what follows is not judged.
    if let (Some(first), Some(last)) = (holdings.first(), holdings.last()) {
        let lat = cfg.lat() + cfg.period;
        let stray = rig.use_token_entries.iter().find(|t| **t > first.0 && **t < last.1 && !holdings.iter().any(|(a, b)| **t >= *a && **t <= *b + lat));
        if let Some(t) = stray {
            rep.count("C15_cases_cut_at_token_accepted_from_hostile_peer");
            let c = *t + cfg.tslot();
            cut_at = Some(cut_at.map(|x| x.min(c)).unwrap_or(c));
        }
    }
    let mut taps: Vec<(usize, TapEv)> = rig.world.stations[0].apps.drain_tap();
    if let Some(c) = cut_at {
        // (one slot time of margin: the last holding before the cut ended with the first, unheard pass)
        let c = c - cfg.tslot();
        taps.retain(|(_, e)| match e {
            TapEv::Ask { t, .. } | TapEv::Reply { t, .. } | TapEv::Timeout { t, .. } => *t < c,
        });
    }
    // frames of the station by start time (to read the function code off the wire)
    let frames_by_start: std::collections::BTreeMap<Us, RTel> = {
        let bus = rig.world.bus.borrow();
        bus.trace.iter().filter(|f| f.sender == rig.st_port).filter_map(|f| f.decoded.clone().map(|d| (f.start, d))).collect()
    };
    let ttr_us = cfg.bits(cfg.ttr_bits as u64);
    let mut sent_in_visit = 0u32;
    let n = match &rig.world.stations[0].apps {
        RingApp::Multi(v) => v.len(),
        RingApp::Traffic(_) => 1,
        _ => 0,
    };
    if verbose {
        eprintln!("holdings {:?}", &holdings[..holdings.len().min(12)]);
        for (k, ev) in taps.iter().take(40) {
            eprintln!("  tap app{} {:?}", k, ev);
        }
        for h in rig.history.iter().take(60) {
            eprintln!("  {}", h);
        }
    }
    let mut outstanding: Option<(usize, u8)> = None;
    let mut viol: Option<(String, String)> = None;
    // P4 state
    let mut last_ask: Option<(usize, bool)> = None; // (app, sent?)
    let mut declined_in_visit: Vec<bool> = vec![false; n.max(1)];
    let mut hidx = 0usize;
    let mut asks_in_visit = 0u32;
    for (k, ev) in taps.iter() {
        match ev {
            TapEv::Ask { t, sent, .. } => {
                rep.count("C15_asks_checked");
                // P1: inside a holding interval
                while hidx + 1 < holdings.len() && *t > holdings[hidx].1 {
                    hidx += 1;
                    declined_in_visit.iter_mut().for_each(|d| *d = false);
                    asks_in_visit = 0;
                    sent_in_visit = 0;
                }
                if !holdings.is_empty() && hidx < holdings.len() && *t >= holdings[0].0 {
                    let (a, b) = holdings[hidx];
                    if *t < a || *t > b {
                        // asks after the last recorded holding are outside the observation window
                        if *t <= holdings.last().unwrap().1 {
                            viol = Some(("C15/P1/asked-without-token".into(), format!("application {} was asked for a telegram at {}us, outside the token holding {}..{}us", k, t, a, b)));
                            break;
                        }
                    }
                }
                if outstanding.is_some() {
                    // a request that got neither reply nor time-out (the station backed off) is over
                    // when the application is asked again; but never while still waiting:
                    rep.count("C15_requests_without_reply_or_timeout");
                    outstanding = None;
                }
                // P4
                if n > 1 {
                    if let Some((pa, psent)) = last_ask {
                        let want = if psent { pa } else { (pa + 1) % n };
                        if *k != want {
                            viol = Some(("C15/P4/round-robin-order".into(), format!("application {} asked after application {} {} (expected application {}; {} applications)", k, pa, if psent { "sent a telegram" } else { "declined" }, want, n)));
                            break;
                        }
                    }
                    if declined_in_visit[*k] {
                        viol = Some(("C15/P4/asked-again-after-declining".into(), format!("application {} declined in this token visit and was asked again at {}us", k, t)));
                        break;
                    }
                    if sent.is_none() {
                        declined_in_visit[*k] = true;
                    }
                    rep.count("C15_P4_turns_checked");
                } else if n == 1 {
                    if declined_in_visit[0] {
                        viol = Some(("C15/P4/asked-again-after-declining".into(), format!("the application declined in this token visit and was asked again at {}us", t)));
                        break;
                    }
                    if sent.is_none() {
                        declined_in_visit[0] = true;
                    }
                }
                asks_in_visit += 1;
                last_ask = Some((*k, sent.is_some()));
                if let Some((_, lib_expects)) = sent {
                    // the reply expectation is read off the wire, not taken from the library
                    if let Some(RTel::Data { fc, da, .. }) = frames_by_start.get(t) {
                        let wire_expects = fc.expects_reply();
                        if wire_expects != lib_expects.is_some() {
                            viol = Some((
                                format!("C15/P2/reply-expectation-differs-from-service/fc-{:02x}", fc.to_byte() & 0x8f),
                                format!("application {} sent a request with function code {:02x} to #{}: the service {} a reply but the station {} one", k, fc.to_byte(), da, if wire_expects { "expects" } else { "does not expect" }, if lib_expects.is_some() { "waits for" } else { "does not wait for" }),
                            ));
                            break;
                        }
                        rep.count("C15_reply_expectations_checked");
                    }
                    // P5: once the hold time is over only the one guaranteed message cycle of the visit may start
                    if hidx >= 1 && hidx < holdings.len() && *t >= holdings[0].0 && *t >= holdings[hidx].0 && *t <= holdings[hidx].1 {
                        let deadline = holdings[hidx - 1].0 + ttr_us + cfg.period + cfg.bits(40);
                        if sent_in_visit >= 1 && *t >= deadline {
                            viol = Some(("C15/P5/request-after-hold-time".into(), format!("application {} started message cycle no. {} of the token visit at {}us; the hold time ended at {}us (previous receipt {}us + TTR)", k, sent_in_visit + 1, t, deadline, holdings[hidx - 1].0)));
                            break;
                        }
                    }
                    sent_in_visit += 1;
                }
                if let Some((_, Some(addr))) = sent {
                    outstanding = Some((*k, *addr));
                    rep.count("C15_requests_expecting_reply");
                }
            }
            TapEv::Reply { t, addr, tel, .. } => {
                rep.count("C15_replies_checked");
                match outstanding {
                    Some((a, oa)) if a == *k && oa == *addr => {}
                    other => {
                        viol = Some(("C15/P2/reply-to-wrong-application".into(), format!("reply from #{} delivered to application {} at {}us but the outstanding request is {:?}", addr, k, t, other)));
                        break;
                    }
                }
                outstanding = None;
                // P3
                let ok = match tel {
                    RTel::Sc => true,
                    RTel::Data { sa, da, fc, .. } => fc.is_resp() && *sa == *addr && *da == ts,
                    RTel::Token { .. } => false,
                };
                if !ok {
                    let class = match tel {
                        RTel::Token { .. } => "token",
                        RTel::Data { fc, .. } if fc.is_req() => "request",
                        RTel::Data { sa, .. } if *sa != *addr => "foreign-source",
                        _ => "foreign-destination",
                    };
                    viol = Some((format!("C15/P3/delivered-{}", class), format!("application {} awaiting #{} was handed {}", k, addr, tel.short())));
                    break;
                }
            }
            TapEv::Timeout { t, addr, .. } => {
                rep.count("C15_timeouts_checked");
                match outstanding {
                    Some((a, oa)) if a == *k && oa == *addr => {}
                    other => {
                        viol = Some(("C15/P2/timeout-to-wrong-application".into(), format!("time-out for #{} delivered to application {} at {}us but the outstanding request is {:?}", addr, k, t, other)));
                        break;
                    }
                }
                outstanding = None;
            }
        }
    }
    let _ = asks_in_visit;
    // P6: "the token is passed once every application has declined once or the hold time is over" --
    // a visit that ends with a token pass while hold time is left must have asked every application
    // until it declined.  (The hold time of a visit ends TTR after the previous receipt, less the
    // reservation of one slot time + 100 bit for a GAP poll; the first visit has no previous receipt.)
    if viol.is_none() && n >= 1 {
        for h in 1..holdings.len() {
            // both this and the previous holding must be real token visits (the previous one gives
            // the receipt time the hold time is counted from)
            let real = |k: usize| passed.get(k).copied().unwrap_or(false) && rig.use_token_entries.iter().any(|t| *t >= holdings[k].0 && *t < holdings[k].1);
            if !real(h) || !real(h - 1) {
                continue;
            }
            let (a, b) = holdings[h];
            if cut_at.map(|c| b >= c - cfg.tslot()).unwrap_or(false) {
                break;
            }
            let hold_end = holdings[h - 1].0 + ttr_us - cfg.bits(cfg.slot_bits as u64 + 100) - 2 * cfg.period - cfg.bits(40);
            if b >= hold_end {
                rep.count("C15_P6_visits_ended_by_hold_time");
                continue;
            }
            let mut declined = vec![false; n];
            for (k, ev) in taps.iter() {
                if let TapEv::Ask { t, sent: None, .. } = ev {
                    if *t >= a && *t <= b {
                        declined[*k] = true;
                    }
                }
            }
            if let Some(k) = declined.iter().position(|d| !*d) {
                viol = Some(("C15/P6/token-passed-before-every-application-declined".into(), format!("the token visit {}..{}us ended with a token pass although the hold time lasts until {}us and application {} of {} has not declined in it", a, b, hold_end, k, n)));
                break;
            }
            rep.count("C15_P6_visits_ended_after_all_declined");
        }
    }
    if let Some((sig, what)) = viol {
        let hist: Vec<String> = rig.history.iter().rev().take(10).rev().cloned().collect();
        rep.violation(sig, format!("{} [{}] last events: {:?}", what, descr, hist));
        return;
    }
    rep.count("C15_cases_completed");
    rep.add("C15_token_visits", holdings.len() as u64);
    let mut fp = Fp::new();
    fp.s(&descr);
    for (k, ev) in taps.iter().take(400) {
        fp.u(*k as u64);
        fp.u(match ev {
            TapEv::Ask { sent, .. } => sent.is_some() as u64,
            TapEv::Reply { .. } => 2,
            TapEv::Timeout { .. } => 3,
        });
    }
    if !taps.is_empty() {
        rep.nontrivial(fp.get());
    } else {
        rep.count("C15_cases_without_application_calls");
    }
    if idx % 256 < 2 {
        rep.sample(J::obj(vec![("kind", J::s("one station, scripted applications and peers")), ("case", J::s(descr)), ("tap_events", J::U(taps.len() as u64)), ("token_visits", J::U(holdings.len() as u64))]));
    }
}

pub fn c15(ctx: &mut Ctx) {
    let seed = ctx.seed;
    if let Some(only) = ctx.only.clone() {
        if only[0] == "c15" {
            let s = only.iter().position(|x| x == "seed").and_then(|k| only.get(k + 1)).and_then(|x| x.parse().ok()).unwrap_or(seed);
            c15_case(&mut ctx.rep, s, only[1].parse().unwrap(), true);
        }
        return;
    }
    let n = ctx.n(24_000, 3_000_000, 2);
    for k in 0..n {
        let i = ctx.shard + k * ctx.nshards;
        ctx.rep.cur_case = format!("c15 {} seed {}", i, seed);
        c15_case(&mut ctx.rep, seed, i, false);
    }
    let _ = Tier::Quick;
}
