//! Discrete-event world: profirust stations polled on jittered schedules, passive devices that
//! react to complete frames, scripted actions — all on one `vbus::Bus`, all from one PRNG.

use crate::refcodec::RTel;
use crate::util::{catch, PanicInfo, Rng};
use crate::vbus::{Bus, MonPhy, Us};
use profirust::fdl::{self, FdlActiveStation};
use profirust::time::Instant;
use std::cell::RefCell;
use std::cmp::Reverse;
use std::collections::BinaryHeap;
use std::rc::Rc;

/// What is attached to a station's `poll()`.
pub trait StationApps {
    fn poll(&mut self, now: Instant, fdl: &mut FdlActiveStation, phy: &mut MonPhy);
}

/// No application: `poll(now, phy, &mut ())`.
pub struct NoApp;
impl StationApps for NoApp {
    fn poll(&mut self, now: Instant, fdl: &mut FdlActiveStation, phy: &mut MonPhy) {
        fdl.poll(now, phy, &mut ());
    }
}

pub struct Station<A: StationApps> {
    pub fdl: FdlActiveStation,
    pub phy: MonPhy,
    pub apps: A,
    pub addr: u8,
    /// maximum inter-poll interval (us); actual interval U[p/2, p]
    pub period: Us,
    pub jitter: bool,
    /// polled at all?  (false = crashed / powered off)
    pub running: bool,
    pub polls: u64,
    pub panic: Option<PanicInfo>,
    pub next_poll: Us,
    pub last_poll: Us,
    pub max_gap: Us,
}

/// Passive bus participant: sees complete, undamaged frames and may answer.
pub trait Device {
    fn port(&self) -> usize;
    /// `tel`: decoded frame, `start`/`end` of the transmission.  Return (delay after `end` in us, bytes).
    fn on_frame(&mut self, now: Us, sender_port: usize, tel: &RTel, raw: &[u8], rng: &mut Rng) -> Option<(Us, Vec<u8>)>;
}

#[derive(Clone, Debug, PartialEq, Eq, PartialOrd, Ord)]
pub enum EvKind {
    Poll(usize),
    DeviceTx(usize, Vec<u8>),
    Action(u32),
    FrameEnd,
}

#[derive(Clone, Debug, PartialEq, Eq, PartialOrd, Ord)]
struct Ev {
    at: Us,
    seq: u64,
    kind: EvKind,
}

pub struct World<A: StationApps> {
    pub bus: Rc<RefCell<Bus>>,
    pub stations: Vec<Station<A>>,
    pub devices: Vec<Box<dyn Device>>,
    events: BinaryHeap<Reverse<Ev>>,
    seq: u64,
    pub rng: Rng,
    pub now: Us,
    pub polls: u64,
    /// stop as soon as a station panics
    pub stop_on_panic: bool,
    trace_seen: usize,
}

/// What `World::step` did.
pub enum Stepped {
    Polled(usize),
    DeviceSent(usize),
    Action(u32),
    Idle,
}

impl<A: StationApps> World<A> {
    pub fn new(baud: profirust::Baudrate, seed: u64) -> Self {
        World {
            bus: Rc::new(RefCell::new(Bus::new(baud, seed))),
            stations: Vec::new(),
            devices: Vec::new(),
            events: BinaryHeap::new(),
            seq: 0,
            rng: Rng::new(seed ^ 0x5151),
            now: 0,
            polls: 0,
            stop_on_panic: true,
            trace_seen: 0,
        }
    }

    pub fn add_station(&mut self, param: fdl::Parameters, apps: A, period: Us, first_poll: Us) -> usize {
        let addr = param.address;
        let phy = MonPhy::new(&self.bus, &format!("#{}", addr));
        let fdl = FdlActiveStation::new(param);
        self.stations.push(Station {
            fdl,
            phy,
            apps,
            addr,
            period: period.max(1),
            jitter: true,
            running: true,
            polls: 0,
            panic: None,
            next_poll: first_poll,
            last_poll: -1,
            max_gap: 0,
        });
        let i = self.stations.len() - 1;
        self.push(first_poll, EvKind::Poll(i));
        i
    }

    pub fn add_device(&mut self, dev: Box<dyn Device>) -> usize {
        self.devices.push(dev);
        self.devices.len() - 1
    }

    pub fn new_device_port(&mut self, name: &str) -> usize {
        self.bus.borrow_mut().add_port(name, true)
    }

    fn push(&mut self, at: Us, kind: EvKind) {
        self.seq += 1;
        self.events.push(Reverse(Ev { at, seq: self.seq, kind }));
    }

    pub fn schedule_action(&mut self, at: Us, id: u32) {
        self.push(at, EvKind::Action(id));
    }

    pub fn schedule_device_tx(&mut self, at: Us, dev_port: usize, bytes: Vec<u8>) {
        self.push(at, EvKind::DeviceTx(dev_port, bytes));
    }

    pub fn next_time(&self) -> Option<Us> {
        self.events.peek().map(|e| e.0.at)
    }

    /// Station `i` goes online at the current time with a freshly opened (empty) PHY.
    pub fn set_online(&mut self, i: usize) {
        let now = self.now;
        let st = &mut self.stations[i];
        st.phy.flush(now);
        st.fdl.set_online();
    }

    /// Crash: the station is no longer polled; a frame in flight is cut off.
    pub fn crash(&mut self, i: usize) {
        self.stations[i].running = false;
        let port = self.stations[i].phy.port;
        self.bus.borrow_mut().abort_tx_of(port, self.now);
    }

    /// Restart after a crash: `set_offline()` + `set_online()` with an empty PHY; polling resumes.
    pub fn restart(&mut self, i: usize) {
        let now = self.now;
        let st = &mut self.stations[i];
        st.fdl.set_offline();
        st.phy.flush(now);
        st.fdl.set_online();
        st.running = true;
        st.last_poll = -1;
    }

    fn dispatch_completed(&mut self) {
        let completed = self.bus.borrow_mut().take_completed(self.now);
        for k in completed {
            let (sender, tel, raw, end, collided, fault) = {
                let bus = self.bus.borrow();
                let r = &bus.trace[k];
                (r.sender, r.decoded.clone(), r.bytes.clone(), r.end, r.collided || r.truncated, r.fault.clone())
            };
            if collided {
                continue;
            }
            let Some(tel) = tel else { continue };
            for d in 0..self.devices.len() {
                let port = self.devices[d].port();
                if port == sender {
                    continue;
                }
                if *fault.for_port(port) != crate::vbus::Delivery::Normal {
                    continue;
                }
                let mut rng = Rng::new(self.rng.next_u64());
                if let Some((delay, bytes)) = self.devices[d].on_frame(end, sender, &tel, &raw, &mut rng) {
                    if !bytes.is_empty() {
                        // never earlier than min Tsdr (11 bit), and at least 1 us: at 6/12 Mbit/s 11 bit
                        // floor to 1/0 us and a reply starting in the same microsecond as the request's
                        // end would lose its first byte to the half-duplex rule - a rounding artefact
                        let min_delay = self.bus.borrow().bits(11).max(1);
                        self.push(end + delay.max(min_delay), EvKind::DeviceTx(port, bytes));
                    }
                }
            }
        }
    }

    /// Execute the next event.  Returns `None` when the queue is empty.
    pub fn step(&mut self) -> Option<Stepped> {
        let Reverse(ev) = self.events.pop()?;
        debug_assert!(ev.at >= self.now);
        self.now = ev.at;
        self.bus.borrow_mut().now = ev.at;
        self.dispatch_completed();
        let res = match ev.kind {
            EvKind::FrameEnd => Stepped::Idle,
            EvKind::Poll(i) => {
                let now = self.now;
                let st = &mut self.stations[i];
                let mut polled = Stepped::Idle;
                if st.running && st.panic.is_none() {
                    let t = Instant::from_micros(now);
                    let Station { fdl, phy, apps, .. } = st;
                    let r = catch(|| apps.poll(t, fdl, phy));
                    st.polls += 1;
                    self.polls += 1;
                    if st.last_poll >= 0 {
                        st.max_gap = st.max_gap.max(now - st.last_poll);
                    }
                    st.last_poll = now;
                    if let Err(p) = r {
                        st.panic = Some(p);
                    }
                    polled = Stepped::Polled(i);
                }
                let st = &mut self.stations[i];
                let p = st.period;
                let dt = if st.jitter { self.rng.range((p + 1) / 2, p).max(1) } else { p };
                st.next_poll = now + dt;
                let at = st.next_poll;
                self.push(at, EvKind::Poll(i));
                polled
            }
            EvKind::DeviceTx(port, bytes) => {
                self.bus.borrow_mut().start_tx(port, self.now, &bytes);
                Stepped::DeviceSent(port)
            }
            EvKind::Action(id) => Stepped::Action(id),
        };
        // every new transmission gets an event at its end so that devices react on time
        let new_ends: Vec<Us> = {
            let bus = self.bus.borrow();
            let total = bus.trace.len() + bus.trace_dropped;
            let first = self.trace_seen.max(bus.trace_dropped);
            let v = (first..total).map(|id| bus.trace[id - bus.trace_dropped].end).collect();
            v
        };
        if !new_ends.is_empty() {
            self.trace_seen += new_ends.len();
            let bus_total = {
                let bus = self.bus.borrow();
                bus.trace.len() + bus.trace_dropped
            };
            self.trace_seen = bus_total;
            for e in new_ends {
                self.push(e.max(self.now), EvKind::FrameEnd);
            }
        }
        Some(res)
    }

    pub fn any_panic(&self) -> Option<(usize, &PanicInfo)> {
        self.stations
            .iter()
            .enumerate()
            .find_map(|(i, s)| s.panic.as_ref().map(|p| (i, p)))
    }

    pub fn breaches(&self) -> Vec<String> {
        let bus = self.bus.borrow();
        bus.ports.iter().flat_map(|p| p.breaches.iter().cloned()).collect()
    }
}

// ------------------------------------------------------------------------------------------------
// Application tap: transparent proxy logging the FdlApplication boundary
// ------------------------------------------------------------------------------------------------

#[derive(Clone, Debug)]
pub enum TapEv {
    /// `transmit_telegram` was called; `sent` = (bytes, expects reply from)
    Ask {
        t: Us,
        seq: u64,
        high_prio_only: bool,
        sent: Option<(usize, Option<u8>)>,
    },
    Reply {
        t: Us,
        seq: u64,
        addr: u8,
        tel: RTel,
    },
    Timeout {
        t: Us,
        seq: u64,
        addr: u8,
    },
}

impl TapEv {
    pub fn seq(&self) -> u64 {
        match self {
            TapEv::Ask { seq, .. } | TapEv::Reply { seq, .. } | TapEv::Timeout { seq, .. } => *seq,
        }
    }
}

thread_local! {
    static TAP_SEQ: std::cell::Cell<u64> = const { std::cell::Cell::new(0) };
}

fn next_tap_seq() -> u64 {
    TAP_SEQ.with(|s| {
        let v = s.get();
        s.set(v + 1);
        v
    })
}

pub struct Tap<A> {
    pub inner: A,
    pub log: Vec<TapEv>,
}

impl<A> Tap<A> {
    pub fn new(inner: A) -> Self {
        Tap { inner, log: Vec::new() }
    }
}

impl<A: fdl::FdlApplication> fdl::FdlApplication for Tap<A> {
    fn transmit_telegram(
        &mut self,
        now: Instant,
        fdl: &FdlActiveStation,
        tx: fdl::TelegramTx,
        high_prio_only: fdl::HighPrioOnly,
    ) -> Option<fdl::TelegramTxResponse> {
        let r = self.inner.transmit_telegram(now, fdl, tx, high_prio_only);
        self.log.push(TapEv::Ask {
            t: now.total_micros(),
            seq: next_tap_seq(),
            high_prio_only: high_prio_only == fdl::HighPrioOnly::Yes,
            sent: r.map(|r| (r.bytes_sent(), r.expects_reply())),
        });
        r
    }

    fn receive_reply(&mut self, now: Instant, fdl: &FdlActiveStation, addr: u8, telegram: fdl::Telegram) {
        self.log.push(TapEv::Reply {
            t: now.total_micros(),
            seq: next_tap_seq(),
            addr,
            tel: crate::refcodec::from_lib(&telegram),
        });
        self.inner.receive_reply(now, fdl, addr, telegram)
    }

    fn handle_timeout(&mut self, now: Instant, fdl: &FdlActiveStation, addr: u8) {
        self.log.push(TapEv::Timeout {
            t: now.total_micros(),
            seq: next_tap_seq(),
            addr,
        });
        self.inner.handle_timeout(now, fdl, addr)
    }
}

/// Largest poll period (us) inside the envelope of DESIGN §5.2 for the given slot time.
pub fn max_period(baud: profirust::Baudrate, slot_bits: u16) -> Us {
    let tslot = crate::vbus::bits_to_us(baud, slot_bits as u64);
    let a = tslot / 4;
    let b = (tslot - crate::vbus::bits_to_us(baud, 48)) / 3;
    a.min(b).max(1)
}
