//! Single real station against a scripted environment (event-driven: the script advances until the
//! station's next transmission or a deadline).  Used by C11 (token acceptance / supervision /
//! retry), C12 (GAP maintenance and status replies) and C15 (application scheduling).

use crate::eng_ring::{Responder, RingApp, TrafficApp};
use crate::refcodec::{self as rc, RFc, RTel};
use crate::sim::*;
use crate::util::*;
use crate::vbus::*;
use profirust::fdl;

#[derive(Clone, Debug)]
pub struct ScriptCfg {
    pub baud: profirust::Baudrate,
    pub slot_bits: u16,
    pub ts: u8,
    pub hsa: u8,
    pub gap: u8,
    pub period: Us,
    pub ttr_bits: u32,
}

impl ScriptCfg {
    pub fn gen(rng: &mut Rng, ts_choice: Option<u8>) -> ScriptCfg {
        let baud = *rng.pick(&[profirust::Baudrate::B19200, profirust::Baudrate::B93750, profirust::Baudrate::B500000, profirust::Baudrate::B1500000, profirust::Baudrate::B12000000]);
        let slot_min = min_slot_bits(baud);
        let slot_bits = slot_min + *rng.pick(&[0u16, 0, 100, 300]);
        let hsa = match rng.usize(4) {
            0 => 126,
            1 => 4 + rng.below(8) as u8,
            _ => 8 + rng.below(40) as u8,
        };
        let ts = ts_choice.unwrap_or_else(|| match rng.usize(5) {
            0 => 0,
            1 => 1,
            2 => hsa - 1,
            _ => rng.below(hsa as u64) as u8,
        });
        let ts = ts.min(hsa - 1);
        let pmax = max_period(baud, slot_bits);
        ScriptCfg {
            baud,
            slot_bits,
            ts,
            hsa,
            gap: *rng.pick(&[1u8, 1, 2, 3, 10]),
            period: *rng.pick(&[pmax, (pmax / 2).max(1), (pmax / 4).max(1)]),
            ttr_bits: *rng.pick(&[256u32, 5000, 60_000]),
        }
    }
    pub fn bits(&self, b: u64) -> Us {
        bits_to_us(self.baud, b)
    }
    pub fn tslot(&self) -> Us {
        self.bits(self.slot_bits as u64)
    }
    /// reaction latency bound: 33 bit + 4 P (+ clock resolution)
    pub fn lat(&self) -> Us {
        self.bits(33) + 4 * self.period + 4
    }
    pub fn token_lost_timeout(&self) -> Us {
        self.bits(self.slot_bits as u64 * (6 + 2 * self.ts as u64))
    }
    pub fn json(&self) -> J {
        J::obj(vec![
            ("baud", J::U(self.baud.to_rate())),
            ("slot_bits", J::U(self.slot_bits as u64)),
            ("ts", J::U(self.ts as u64)),
            ("hsa", J::U(self.hsa as u64)),
            ("gap_factor", J::U(self.gap as u64)),
            ("poll_period_us", J::I(self.period)),
            ("ttr_bits", J::U(self.ttr_bits as u64)),
        ])
    }
}

pub struct Rig {
    pub cfg: ScriptCfg,
    pub world: World<RingApp>,
    pub env: usize,
    pub st_port: usize,
    /// trace index up to which the station's frames were consumed by `next_station_tx`
    pub seen: usize,
    pub history: Vec<String>,
    /// FDL states (probe) the station was observed in
    pub states: std::collections::BTreeSet<(&'static str, u8)>,
    /// debugging aid for replays (PBMON_TRACE_POLLS=1): print the probe after every step
    pub trace_polls: bool,
    /// times at which the probe showed the station entering UseToken (using, not claiming, the token)
    pub use_token_entries: Vec<Us>,
    last_state: &'static str,
    /// times at which the probe showed the station in CheckTokenPass with attempt >= 2 (a repeated token pass)
    pub pass_retries: Vec<Us>,
    last_sub: u8,
}

impl Rig {
    pub fn new(cfg: &ScriptCfg, app: RingApp, seed: u64) -> Rig {
        let mut world: World<RingApp> = World::new(cfg.baud, seed);
        let mut b = fdl::ParametersBuilder::new(cfg.ts, cfg.baud);
        b.slot_bits(cfg.slot_bits).highest_station_address(cfg.hsa).token_rotation_bits(cfg.ttr_bits).gap_wait_rotations(cfg.gap);
        let idx = world.add_station(b.build(), app, cfg.period, 5);
        world.set_online(idx);
        let st_port = world.stations[idx].phy.port;
        let env = world.new_device_port("env");
        Rig {
            cfg: cfg.clone(),
            world,
            env,
            st_port,
            seen: 0,
            history: Vec::new(),
            states: Default::default(),
            trace_polls: std::env::var("PBMON_TRACE_POLLS").is_ok(),
            use_token_entries: Vec::new(),
            last_state: "",
            pass_retries: Vec::new(),
            last_sub: 0,
        }
    }

    pub fn now(&self) -> Us {
        self.world.now
    }

    pub fn fdl(&self) -> &fdl::FdlActiveStation {
        &self.world.stations[0].fdl
    }

    pub fn las(&self) -> Vec<u8> {
        self.fdl().inspect_token_ring().iter_active_stations().collect()
    }

    pub fn panicked(&self) -> Option<&PanicInfo> {
        self.world.stations[0].panic.as_ref()
    }

    pub fn last_end(&self) -> Us {
        self.world.bus.borrow().trace.last().map(|f| f.end).unwrap_or(0)
    }

    pub fn note(&mut self, s: String) {
        if self.history.len() < 400 {
            self.history.push(format!("{}us {}", self.world.now, s));
        }
    }

    /// Run the world until `t`.
    pub fn run_until(&mut self, t: Us) {
        profirust::verif::set_fuel(200_000);
        while let Some(nt) = self.world.next_time() {
            if nt > t {
                break;
            }
            profirust::verif::set_fuel(200_000);
            self.world.step();
            if self.world.stations[0].panic.is_some() {
                return;
            }
            let p = self.world.stations[0].fdl.verif_probe();
            if self.trace_polls {
                eprintln!("  @{} {:?}", self.world.now, p);
            }
            self.states.insert((p.state, p.sub));
            if (p.state == "UseToken" || p.state == "AwaitDataResponse") && self.last_state != "UseToken" && self.last_state != "AwaitDataResponse" {
                self.use_token_entries.push(self.world.now);
            }
            if p.state == "CheckTokenPass" && p.sub >= 2 && (self.last_state != "CheckTokenPass" || self.last_sub != p.sub) {
                self.pass_retries.push(self.world.now);
            }
            self.last_state = p.state;
            self.last_sub = p.sub;
        }
        if self.world.now < t {
            // nothing scheduled in between: jump
            self.world.now = self.world.now.max(t);
        }
    }

    /// The environment transmits `bytes`, starting `gap_bits` after the last bus activity (but not
    /// before now).  Returns the end time of the transmission; the world has advanced to it.
    pub fn env_send(&mut self, bytes: &[u8], gap_bits: u64) -> Us {
        let start = (self.last_end() + self.cfg.bits(gap_bits)).max(self.world.now + 1);
        self.world.schedule_device_tx(start, self.env, bytes.to_vec());
        let end = start + self.cfg.bits(11 * bytes.len() as u64);
        self.run_until(end);
        let d = rc::decode_frame(bytes).map(|t| t.short()).unwrap_or_else(|| format!("raw {}", hex(bytes)));
        self.note(format!("env: {}", d));
        end
    }

    pub fn env_token(&mut self, sa: u8, da: u8, gap_bits: u64) -> Us {
        self.env_send(&[rc::SD4, da, sa], gap_bits)
    }

    pub fn env_tel(&mut self, t: &RTel, gap_bits: u64) -> Us {
        self.env_send(&rc::encode(t).unwrap(), gap_bits)
    }

    /// Next frame transmitted by the station (start <= deadline).  The world advances until the
    /// frame has *ended* (or to the deadline).
    pub fn next_station_tx(&mut self, deadline: Us) -> Option<TxRec> {
        loop {
            {
                let bus = self.world.bus.borrow();
                while self.seen < bus.trace.len() {
                    let f = &bus.trace[self.seen];
                    self.seen += 1;
                    if f.sender == self.st_port {
                        let f = f.clone();
                        drop(bus);
                        self.run_until(f.end);
                        let d = f.decoded.as_ref().map(|t| t.short()).unwrap_or_else(|| format!("raw {}", hex(&f.bytes)));
                        self.note(format!("station: {}", d));
                        return Some(f);
                    }
                }
            }
            if self.world.stations[0].panic.is_some() {
                return None;
            }
            let Some(nt) = self.world.next_time() else { return None };
            if nt > deadline {
                self.run_until(deadline);
                // frames that started exactly up to the deadline
                let bus = self.world.bus.borrow();
                if self.seen >= bus.trace.len() {
                    return None;
                }
                continue;
            }
            profirust::verif::set_fuel(200_000);
            self.world.step();
            let p = self.world.stations[0].fdl.verif_probe();
            self.states.insert((p.state, p.sub));
        }
    }

    /// Let the station digest what it received (a few polls).
    pub fn settle(&mut self) {
        let t = self.now() + self.cfg.bits(40) + 4 * self.cfg.period;
        self.run_until(t);
    }

    /// True if the station transmitted anything in (now, deadline].
    pub fn station_silent_until(&mut self, deadline: Us) -> Result<(), TxRec> {
        match self.next_station_tx(deadline) {
            None => Ok(()),
            Some(f) => Err(f),
        }
    }

    pub fn status_reply(&self, from: u8, to: u8, state: u8) -> RTel {
        RTel::Data {
            da: to,
            sa: from,
            dsap: None,
            ssap: None,
            fc: RFc::Resp { state, status: 0 },
            pdu: vec![],
        }
    }

    pub fn status_request(&self, from: u8, to: u8) -> RTel {
        RTel::Data {
            da: to,
            sa: from,
            dsap: None,
            ssap: None,
            fc: RFc::Req {
                fcv: false,
                fcb: false,
                code: rc::REQ_FDL_STATUS,
            },
            pdu: vec![],
        }
    }

    pub fn dump(&self) {
        for h in &self.history {
            eprintln!("   {}", h);
        }
    }
}

pub fn is_token(f: &TxRec, sa: u8, da: u8) -> bool {
    matches!(&f.decoded, Some(RTel::Token { sa: s, da: d }) if *s == sa && *d == da)
}

pub fn is_status_req_to(f: &TxRec) -> Option<u8> {
    match &f.decoded {
        Some(t) if t.is_fdl_status_req() => t.da(),
        _ => None,
    }
}

/// Let a lone station claim the token; the environment answers the post-claim GAP scan for the
/// addresses in `ready` with "master ready".  Returns the successor the station chose (the first
/// of `ready` in GAP-scan order) once it has passed the token to it, or None if it keeps the token.
pub fn bring_up_by_claim(rig: &mut Rig, ready: &[u8]) -> Result<Option<u8>, String> {
    let cfg = rig.cfg.clone();
    let deadline = rig.now() + cfg.token_lost_timeout() + 4 * cfg.lat() + cfg.tslot();
    // two claim tokens
    for k in 0..2 {
        let Some(f) = rig.next_station_tx(deadline) else { return Err(format!("no claim token {} within the time-out", k + 1)) };
        if !is_token(&f, cfg.ts, cfg.ts) {
            return Err(format!("expected claim token, got {:?}", f.decoded.map(|t| t.short())));
        }
    }
    // GAP scan
    let mut polled = 0;
    loop {
        let dl = rig.now() + cfg.tslot() + 2 * cfg.lat();
        let Some(f) = rig.next_station_tx(dl) else { return Err("station stopped during the post-claim scan".into()) };
        if let Some(a) = is_status_req_to(&f) {
            polled += 1;
            if polled > 130 {
                return Err("post-claim scan does not end".into());
            }
            if ready.contains(&a) {
                let r = rig.status_reply(a, cfg.ts, 2);
                rig.env_tel(&r, 11 + 3);
            }
            continue;
        }
        match &f.decoded {
            Some(RTel::Token { sa, da }) if *sa == cfg.ts => {
                return Ok(if *da == cfg.ts { None } else { Some(*da) });
            }
            other => return Err(format!("unexpected frame during scan: {:?}", other.as_ref().map(|t| t.short()))),
        }
    }
}

pub fn app_none() -> RingApp {
    RingApp::None
}

pub fn app_traffic(seed: u64, appetite: u8, peers: Vec<u8>, srd: bool) -> RingApp {
    RingApp::Traffic(Tap::new(TrafficApp::new(seed, appetite, peers, srd, 20)))
}

pub fn add_responder(rig: &mut Rig, addr: u8, mode: u8) {
    let port = rig.world.new_device_port(&format!("slave#{}", addr));
    rig.world.add_device(Box::new(Responder {
        port,
        addr,
        tsdr_bits: 11,
        baud: rig.cfg.baud,
        mode,
    }));
}
