//! Multi-station rings on the virtual bus: C01 (bus access), C02 (ring formation / LAS agreement),
//! C06 (recovery), C12 (GAP rules in rings), C13 (hold time / rotation).
//!
//! All monitors work on the bus trace (decoded with the reference codec), on samples of the public
//! getters taken after every poll, and on the application tap.  The probe hook is used for coverage
//! fingerprints, for targeting crash points and for the "two token holders" invariant only.

use crate::refcodec::{RFc, RTel};
use crate::sim::*;
use crate::util::*;
use crate::vbus::*;
use crate::{Ctx, Tier};
use profirust::fdl::{self, FdlActiveStation};
use profirust::time::Instant;
use std::collections::{BTreeMap, BTreeSet};

// ------------------------------------------------------------------------------------------------
// Applications that can be attached to a ring station
// ------------------------------------------------------------------------------------------------

/// Synthetic traffic application: sends SDN / SRD requests to a peer with a configurable appetite.
pub struct TrafficApp {
    pub rng: Rng,
    /// 0 = never, 1 = sometimes, 2 = always ready to send
    pub appetite: u8,
    pub peers: Vec<u8>,
    pub sent_this_cycle: u32,
    pub max_per_cycle: u32,
    pub srd: bool,
    pub max_len: usize,
    pub outstanding: Option<u8>,
    pub asks: u64,
}

impl TrafficApp {
    pub fn new(seed: u64, appetite: u8, peers: Vec<u8>, srd: bool, max_len: usize) -> Self {
        let mut rng = Rng::new(seed);
        let max_per_cycle = 1 + rng.below(4) as u32;
        TrafficApp {
            rng,
            appetite,
            peers,
            sent_this_cycle: 0,
            max_per_cycle,
            srd,
            max_len,
            outstanding: None,
            asks: 0,
        }
    }
}

impl fdl::FdlApplication for TrafficApp {
    fn transmit_telegram(&mut self, _now: Instant, fdl: &FdlActiveStation, tx: fdl::TelegramTx, high_prio_only: fdl::HighPrioOnly) -> Option<fdl::TelegramTxResponse> {
        self.asks += 1;
        let want = match self.appetite {
            0 => false,
            1 => self.rng.chance(1, 3),
            // "always": never declines voluntarily (a greedy application)
            2 => true,
            // cooperative: a bounded burst, then decline once
            _ => {
                if self.sent_this_cycle >= self.max_per_cycle {
                    self.sent_this_cycle = 0;
                    false
                } else {
                    true
                }
            }
        };
        if !want || self.peers.is_empty() {
            return None;
        }
        let _ = high_prio_only;
        self.sent_this_cycle += 1;
        let da = *self.rng.pick(&self.peers);
        let len = self.rng.usize(self.max_len + 1);
        let payload = self.rng.bytes(len);
        let req = if self.srd {
            // acknowledged / answered services
            *self.rng.pick(&[
                fdl::RequestType::SrdLow,
                fdl::RequestType::SrdHigh,
                fdl::RequestType::SrdLow,
                fdl::RequestType::SrdHigh,
                fdl::RequestType::MulticastSrd,
                fdl::RequestType::SdaLow,
                fdl::RequestType::SdaHigh,
                fdl::RequestType::Ident,
                fdl::RequestType::LsapStatus,
            ])
        } else {
            *self.rng.pick(&[fdl::RequestType::SdnLow, fdl::RequestType::SdnHigh, fdl::RequestType::SdnLow, fdl::RequestType::SdnHigh, fdl::RequestType::TimeEvent, fdl::RequestType::ClockValue])
        };
        if self.srd {
            self.outstanding = Some(da);
        }
        Some(tx.send_data_telegram(
            fdl::DataTelegramHeader {
                da,
                sa: fdl.parameters().address,
                dsap: None,
                ssap: None,
                fc: fdl::FunctionCode::Request {
                    fcb: fdl::FrameCountBit::Inactive,
                    req,
                },
            },
            len,
            |b| b.copy_from_slice(&payload),
        ))
    }
    fn receive_reply(&mut self, _now: Instant, _fdl: &FdlActiveStation, _addr: u8, _telegram: fdl::Telegram) {
        self.outstanding = None;
    }
    fn handle_timeout(&mut self, _now: Instant, _fdl: &FdlActiveStation, _addr: u8) {
        self.outstanding = None;
    }
}

pub enum RingApp {
    None,
    Live(Tap<fdl::live_list::LiveList>),
    Traffic(Tap<TrafficApp>),
    Multi(Vec<Tap<TrafficApp>>),
    Scan(Tap<profirust::dp::scan::DpScanner>),
}

impl StationApps for RingApp {
    fn poll(&mut self, now: Instant, fdl: &mut FdlActiveStation, phy: &mut MonPhy) {
        match self {
            RingApp::None => fdl.poll(now, phy, &mut ()),
            RingApp::Live(a) => fdl.poll(now, phy, a),
            RingApp::Traffic(a) => fdl.poll(now, phy, a),
            RingApp::Scan(a) => fdl.poll(now, phy, a),
            RingApp::Multi(v) => {
                let mut refs: Vec<&mut dyn fdl::FdlApplication> = v.iter_mut().map(|a| a as &mut dyn fdl::FdlApplication).collect();
                fdl.poll_multi(now, phy, &mut refs[..]);
            }
        }
    }
}

impl RingApp {
    pub fn drain_tap(&mut self) -> Vec<(usize, TapEv)> {
        match self {
            RingApp::None => vec![],
            RingApp::Live(a) => a.log.drain(..).map(|e| (0, e)).collect(),
            RingApp::Traffic(a) => a.log.drain(..).map(|e| (0, e)).collect(),
            RingApp::Scan(a) => a.log.drain(..).map(|e| (0, e)).collect(),
            RingApp::Multi(v) => {
                let mut out: Vec<(usize, TapEv)> = Vec::new();
                for (i, a) in v.iter_mut().enumerate() {
                    out.extend(a.log.drain(..).map(|e| (i, e)));
                }
                // global call order (several applications may be called within one poll, at the same time stamp)
                out.sort_by_key(|(_, e)| e.seq());
                out
            }
        }
    }
    pub fn kind(&self) -> &'static str {
        match self {
            RingApp::None => "none",
            RingApp::Live(_) => "livelist",
            RingApp::Traffic(_) => "traffic",
            RingApp::Scan(_) => "dp-scanner",
            RingApp::Multi(_) => "multi",
        }
    }
}

/// Passive device answering FDL status requests (as a slave) and SRD requests (with data or SC).
pub struct Responder {
    pub port: usize,
    pub addr: u8,
    pub tsdr_bits: u64,
    pub baud: profirust::Baudrate,
    /// 0 = answer correctly, 1 = silent
    pub mode: u8,
}

impl Device for Responder {
    fn port(&self) -> usize {
        self.port
    }
    fn on_frame(&mut self, _now: Us, _sender: usize, tel: &RTel, _raw: &[u8], rng: &mut Rng) -> Option<(Us, Vec<u8>)> {
        if self.mode == 1 {
            return None;
        }
        if self.mode == 2 {
            // hostile peer: every kind of wrong answer
            if let RTel::Data { da, sa, fc, .. } = tel {
                if *da != self.addr || !fc.is_req() || !fc.expects_reply() {
                    return None;
                }
                let delay = bits_to_us(self.baud, self.tsdr_bits + rng.below(20));
                let late = bits_to_us(self.baud, 400 + rng.below(2000));
                if fc.req_code() == Some(crate::refcodec::REQ_FDL_STATUS) {
                    // towards GAP polls it is a plain slave (or mute): it must not be taken for a master
                    if rng.bool() {
                        return None;
                    }
                    let r = RTel::Data { da: *sa, sa: self.addr, dsap: None, ssap: None, fc: RFc::Resp { state: 0, status: 0 }, pdu: vec![] };
                    return Some((delay, crate::refcodec::encode(&r).unwrap()));
                }
                let data = |sa_: u8, da_: u8, fc_: RFc, rng: &mut Rng| {
                    crate::refcodec::encode(&RTel::Data {
                        da: da_,
                        sa: sa_,
                        dsap: None,
                        ssap: None,
                        fc: fc_,
                        pdu: rng.bytes(rng.clone().usize(8)),
                    })
                    .unwrap()
                };
                let ok = RFc::Resp { state: 0, status: 8 };
                return match rng.usize(10) {
                    0 => None,
                    1 => Some((delay, data(self.addr, *sa, ok, rng))),
                    2 => Some((delay, vec![crate::refcodec::SC])),
                    3 => Some((late, data(self.addr, *sa, ok, rng))),
                    4 => Some((delay, data((self.addr + 1) % 126, *sa, ok, rng))), // foreign source
                    5 => Some((delay, data(self.addr, (*sa + 1) % 126, ok, rng))), // foreign destination
                    6 => Some((delay, data(self.addr, *sa, RFc::Req { fcv: false, fcb: false, code: crate::refcodec::REQ_SRD_LOW }, rng))),
                    7 => Some((delay, vec![crate::refcodec::SD4, *sa, self.addr])), // a token instead
                    8 => Some((delay, rng.bytes(1 + rng.clone().usize(6)))),         // garbage
                    _ => Some((delay, data(self.addr, *sa, RFc::Resp { state: rng.u8() & 3, status: *rng.pick(&crate::refcodec::RESP_STATUS) }, rng))),
                };
            }
            return None;
        }
        if let RTel::Data { da, sa, fc, .. } = tel {
            if *da != self.addr {
                return None;
            }
            if let RFc::Req { code, .. } = fc {
                if !fc.expects_reply() {
                    return None;
                }
                let delay = bits_to_us(self.baud, self.tsdr_bits + rng.below(20));
                if *code == crate::refcodec::REQ_FDL_STATUS {
                    let r = RTel::Data {
                        da: *sa,
                        sa: self.addr,
                        dsap: None,
                        ssap: None,
                        fc: RFc::Resp { state: 0, status: 0 },
                        pdu: vec![],
                    };
                    return Some((delay, crate::refcodec::encode(&r).unwrap()));
                }
                // SRD: answer with a few data bytes or SC
                if rng.bool() {
                    return Some((delay, vec![crate::refcodec::SC]));
                }
                let r = RTel::Data {
                    da: *sa,
                    sa: self.addr,
                    dsap: None,
                    ssap: None,
                    fc: RFc::Resp { state: 0, status: 8 },
                    pdu: rng.bytes(rng.clone().usize(12)),
                };
                return Some((delay, crate::refcodec::encode(&r).unwrap()));
            }
        }
        None
    }
}

// ------------------------------------------------------------------------------------------------
// Ring configuration
// ------------------------------------------------------------------------------------------------

#[derive(Clone, Debug)]
pub struct StationCfg {
    pub addr: u8,
    pub period: Us,
    /// time of set_online
    pub online_at: Us,
    pub app: u8, // 0 none, 1 livelist, 2 traffic, 3 multi
    pub appetite: u8,
    pub srd: bool,
    pub ttr_bits: u32,
}

#[derive(Clone, Debug)]
pub struct RingCfg {
    pub baud: profirust::Baudrate,
    pub slot_bits: u16,
    pub hsa: u8,
    pub gap: u8,
    pub stations: Vec<StationCfg>,
    pub responders: Vec<u8>,
    pub start_mode: &'static str,
    pub class: &'static str,
}

impl RingCfg {
    pub fn json(&self) -> J {
        J::obj(vec![
            ("baud", J::U(self.baud.to_rate())),
            ("slot_bits", J::U(self.slot_bits as u64)),
            ("hsa", J::U(self.hsa as u64)),
            ("gap_factor", J::U(self.gap as u64)),
            ("start_mode", J::s(self.start_mode)),
            ("class", J::s(self.class)),
            (
                "stations",
                J::A(self
                    .stations
                    .iter()
                    .map(|s| J::s(format!("#{} period {}us online@{}us app {} ttr {}", s.addr, s.period, s.online_at, ["none", "livelist", "traffic", "multi"][s.app as usize], s.ttr_bits)))
                    .collect()),
            ),
            ("responders", J::A(self.responders.iter().map(|a| J::U(*a as u64)).collect())),
        ])
    }
    pub fn tslot(&self) -> Us {
        bits_to_us(self.baud, self.slot_bits as u64)
    }
    pub fn bits(&self, b: u64) -> Us {
        bits_to_us(self.baud, b)
    }
    pub fn pmax(&self) -> Us {
        self.stations.iter().map(|s| s.period).max().unwrap_or(1)
    }
    /// reaction latency bound L = 33 bit + 4 P
    pub fn lat(&self) -> Us {
        self.bits(33) + 4 * self.pmax() + 4
    }
    pub fn token_lost_timeout(&self, addr: u8) -> Us {
        self.bits(self.slot_bits as u64 * (6 + 2 * addr as u64))
    }
    pub fn t_visit(&self) -> Us {
        2 * self.lat() + self.bits(66) + self.tslot() + self.bits(33)
    }
    pub fn b_conv(&self) -> Us {
        let n = self.stations.len() as i64;
        let amin = self.stations.iter().map(|s| s.addr).min().unwrap_or(0);
        let trot = n * self.t_visit();
        let tclaim = self.token_lost_timeout(amin) + 2 * (self.bits(33) + self.lat()) + self.hsa as i64 * (self.bits(66) + self.tslot() + self.lat());
        2 * (tclaim + n * (self.gap as i64 + self.hsa as i64 + 6) * trot)
    }
}

pub fn gen_ring_cfg(rng: &mut Rng, with_apps: bool, small_hsa_bias: bool) -> RingCfg {
    let baud = *rng.pick(&ALL_BAUDS);
    let slot_min = min_slot_bits(baud);
    let slot_bits = match rng.usize(4) {
        0 => slot_min,
        1 => slot_min + rng.below(100) as u16,
        2 => slot_min * 2,
        _ => slot_min + rng.below(2 * slot_min as u64) as u16,
    };
    let n = 2 + rng.usize(4);
    let class: &'static str;
    // addresses
    let hsa_cap: u8 = if small_hsa_bias && rng.chance(3, 4) { 8 + rng.below(20) as u8 } else { 126 };
    let mut addrs: BTreeSet<u8> = BTreeSet::new();
    let hsa: u8;
    match rng.usize(8) {
        0 => {
            class = "adjacent";
            let base = rng.below((hsa_cap as u64 - n as u64).max(1)) as u8;
            for k in 0..n {
                addrs.insert(base + k as u8);
            }
            hsa = (*addrs.iter().max().unwrap() + 1 + rng.below(4) as u8).min(126);
        }
        1 => {
            class = "station-at-hsa-1";
            // (the extreme, a station at 125 below the default HSA of 126, in a third of the large cases)
            hsa = if hsa_cap == 126 && rng.chance(1, 3) { 126 } else { (n as u8 + 1 + rng.below((hsa_cap - n as u8 - 1).max(1) as u64) as u8).min(126) };
            addrs.insert(hsa - 1);
            while addrs.len() < n {
                addrs.insert(rng.below(hsa as u64) as u8);
            }
        }
        2 => {
            class = "address-0";
            addrs.insert(0);
            while addrs.len() < n {
                addrs.insert(rng.below(hsa_cap as u64 - 1) as u8);
            }
            hsa = (*addrs.iter().max().unwrap() + 1 + rng.below(6) as u8).min(126);
        }
        3 => {
            class = "wrap-around-pair";
            // one station at 0 and one at hsa-1: the GAP of the highest wraps
            hsa = if hsa_cap == 126 && rng.chance(1, 3) { 126 } else { (n as u8 + 2 + rng.below((hsa_cap - n as u8 - 2).max(1) as u64) as u8).min(126) };
            addrs.insert(0);
            addrs.insert(hsa - 1);
            while addrs.len() < n {
                addrs.insert(rng.below(hsa as u64) as u8);
            }
        }
        4 => {
            class = "ts-1-of-another";
            let a = 1 + rng.below(hsa_cap as u64 - 2) as u8;
            addrs.insert(a);
            addrs.insert(a - 1);
            while addrs.len() < n {
                addrs.insert(rng.below(hsa_cap as u64 - 1) as u8);
            }
            hsa = (*addrs.iter().max().unwrap() + 1 + rng.below(6) as u8).min(126);
        }
        _ => {
            class = "random";
            while addrs.len() < n {
                addrs.insert(rng.below(hsa_cap as u64 - 1) as u8);
            }
            let maxa = *addrs.iter().max().unwrap();
            hsa = if rng.bool() { maxa + 1 } else { (maxa + 1 + rng.below((126 - maxa) as u64) as u8).min(126) };
        }
    }
    let gap = match rng.usize(5) {
        0 => 1,
        1 => 2 + rng.below(3) as u8,
        2 => 10,
        3 => 1 + rng.below(100) as u8,
        _ => 1 + rng.below(6) as u8,
    };
    let pmax = max_period(baud, slot_bits);
    let tslot = bits_to_us(baud, slot_bits as u64);
    let start_mode: &'static str = *rng.pick(&["cold-together", "cold-together", "joiners", "joiners-at-once", "one-late"]);
    let addrs: Vec<u8> = addrs.into_iter().collect();
    let mut stations = Vec::new();
    // rough rotation time for scheduling joiners
    let rot = n as i64 * (bits_to_us(baud, 200) + tslot);
    let first_count = match start_mode {
        "cold-together" => n,
        "one-late" => n - 1,
        _ => 1 + rng.usize(n - 1),
    };
    let mut order: Vec<usize> = (0..n).collect();
    rng.shuffle(&mut order);
    let late_at = rot * (3 + rng.below(60) as i64) + bits_to_us(baud, (6 + 2 * 126) * slot_bits as u64) / (1 + rng.below(8) as i64);
    // "joining a bus that is already active": a joiner that goes online while the first group is still
    // waiting out its silence time-out races with it for the claim (the excluded un-synchronised
    // cold-start race, section 5.3).  The first claim comes at most Tslot/2 + (6 + 2*a_min)*Tslot after
    // the start; from then on the bus is never silent for a whole time-out again.
    let a_min_first = order[..first_count].iter().map(|i| addrs[*i]).min().unwrap_or(0);
    let late_at = late_at.max(tslot / 2 + (6 + 2 * a_min_first as i64) * tslot + 4 * tslot + 4 * pmax);
    for (k, idx) in order.iter().enumerate() {
        let addr = addrs[*idx];
        let period = match rng.usize(4) {
            0 => pmax,
            1 => (pmax / 2).max(1),
            2 => 1 + rng.below(pmax as u64) as Us,
            _ => (pmax / 4).max(1),
        };
        let online_at = if k < first_count {
            // within a window < Tslot/2
            rng.below((tslot / 2).max(1) as u64) as Us
        } else {
            match start_mode {
                "joiners-at-once" => late_at + rng.below((tslot / 2).max(1) as u64) as Us,
                _ => late_at + rng.below((rot * 40).max(1) as u64) as Us,
            }
        };
        let (app, appetite, srd) = if with_apps {
            match rng.usize(6) {
                0 => (0, 0, false),
                1 => (1, 0, false),
                2 => (3, 3, rng.bool()),
                _ => (2, *rng.pick(&[0u8, 1, 2, 3]), rng.bool()),
            }
        } else if rng.chance(1, 5) {
            (1, 0, false)
        } else {
            (0, 0, false)
        };
        let ttr_bits = match rng.usize(4) {
            0 => 256 + rng.below(2000) as u32,
            1 => hsa as u32 * 5000,
            2 => 256 + rng.below(20000) as u32,
            _ => 2000 + rng.below(60000) as u32,
        };
        stations.push(StationCfg {
            addr,
            period,
            online_at,
            app,
            appetite,
            srd,
            ttr_bits,
        });
    }
    stations.sort_by_key(|s| s.addr);
    // passive responders (slaves) on addresses not used by stations, also above HSA
    let mut responders = Vec::new();
    if with_apps || rng.chance(1, 4) {
        for _ in 0..rng.usize(4) {
            let a = rng.below(126) as u8;
            if !addrs.contains(&a) && !responders.contains(&a) {
                responders.push(a);
            }
        }
    }
    RingCfg {
        baud,
        slot_bits,
        hsa,
        gap,
        stations,
        responders,
        start_mode,
        class,
    }
}

// ------------------------------------------------------------------------------------------------
// Building and running a ring
// ------------------------------------------------------------------------------------------------

#[derive(Clone, Debug, PartialEq, Eq)]
pub struct Snap {
    pub in_ring: bool,
    pub las: Vec<u8>,
    pub ns: u8,
    pub ps: u8,
    pub ready: bool,
}

pub struct RingRun {
    pub cfg: RingCfg,
    pub world: World<RingApp>,
    /// per station: is it online (from the harness's point of view)?
    pub online: Vec<bool>,
    /// per station: (time, snapshot) on every change
    pub snaps: Vec<Vec<(Us, Snap)>>,
    /// per station: tap events with app index
    pub taps: Vec<Vec<(usize, TapEv)>>,
    /// (time, station, probe state name, sub) — only when requested
    pub probe_states: BTreeSet<(&'static str, u8)>,
    /// times at which two stations reported have_token simultaneously
    pub double_holders: Vec<(Us, u8, u8)>,
    pub last_online_change: Us,
    pub port_addr: BTreeMap<usize, u8>,
    /// per station: holder flag sampled after each poll (for the double-holder invariant)
    holder_now: Vec<bool>,
    /// (time, station index) of probe-observed token receipts (UseToken entered)
    pub receipts: Vec<(Us, usize)>,
    last_state: Vec<&'static str>,
}

pub fn build_ring(cfg: &RingCfg, seed: u64) -> RingRun {
    let mut world: World<RingApp> = World::new(cfg.baud, seed);
    let mut port_addr = BTreeMap::new();
    let peers_all: Vec<u8> = cfg.stations.iter().map(|s| s.addr).chain(cfg.responders.iter().copied()).collect();
    for (i, s) in cfg.stations.iter().enumerate() {
        let mut b = fdl::ParametersBuilder::new(s.addr, cfg.baud);
        b.slot_bits(cfg.slot_bits).highest_station_address(cfg.hsa).token_rotation_bits(s.ttr_bits).gap_wait_rotations(cfg.gap);
        let param = b.build();
        let mut peers: Vec<u8> = peers_all.iter().copied().filter(|a| *a != s.addr).collect();
        // sometimes talk to an address nobody answers on
        if seed % 3 == 0 {
            peers.push(125);
        }
        let app = match s.app {
            1 => RingApp::Live(Tap::new(fdl::live_list::LiveList::new())),
            2 => RingApp::Traffic(Tap::new(TrafficApp::new(seed ^ (i as u64 * 77), s.appetite, peers, s.srd, 40))),
            3 => RingApp::Multi(
                (0..2 + (seed as usize + i) % 2)
                    .map(|k| Tap::new(TrafficApp::new(seed ^ (i as u64 * 77 + k as u64), 3, peers.clone(), (seed >> k) & 1 == 1 && s.srd, 30)))
                    .collect(),
            ),
            _ => RingApp::None,
        };
        // first poll shortly after going online; before that the station is offline and not polled
        let idx = world.add_station(param, app, s.period, s.online_at);
        world.stations[idx].running = false;
        port_addr.insert(world.stations[idx].phy.port, s.addr);
        world.schedule_action(s.online_at, idx as u32);
    }
    for a in &cfg.responders {
        let port = world.new_device_port(&format!("slave#{}", a));
        port_addr.insert(port, *a);
        world.add_device(Box::new(Responder {
            port,
            addr: *a,
            tsdr_bits: 11,
            baud: cfg.baud,
            mode: 0,
        }));
    }
    let n = cfg.stations.len();
    RingRun {
        cfg: cfg.clone(),
        world,
        online: vec![false; n],
        snaps: vec![Vec::new(); n],
        taps: vec![Vec::new(); n],
        probe_states: BTreeSet::new(),
        double_holders: Vec::new(),
        last_online_change: 0,
        port_addr,
        holder_now: vec![false; n],
        receipts: Vec::new(),
        last_state: vec![""; n],
    }
}

pub const ACT_ONLINE_BASE: u32 = 0; // action id i < 1000: set station i online

impl RingRun {
    fn sample(&mut self, i: usize) {
        let now = self.world.now;
        let st = &mut self.world.stations[i];
        let tr = st.fdl.inspect_token_ring();
        let snap = Snap {
            in_ring: st.fdl.is_in_ring(),
            las: tr.iter_active_stations().collect(),
            ns: tr.next_station(),
            ps: tr.previous_station(),
            ready: tr.ready_for_ring(),
        };
        if self.snaps[i].last().map(|(_, s)| s != &snap).unwrap_or(true) {
            self.snaps[i].push((now, snap));
        }
        let p = st.fdl.verif_probe();
        self.probe_states.insert((p.state, p.sub));
        if p.state == "UseToken" && self.last_state[i] != "UseToken" && self.last_state[i] != "AwaitDataResponse" {
            self.receipts.push((now, i));
        }
        self.last_state[i] = p.state;
        self.holder_now[i] = p.have_token;
        if p.have_token {
            for j in 0..self.holder_now.len() {
                if j != i && self.holder_now[j] && self.world.stations[j].running {
                    let (a, b) = (self.world.stations[i].addr, self.world.stations[j].addr);
                    if self.double_holders.len() < 100 {
                        self.double_holders.push((now, a, b));
                    }
                }
            }
        }
        let ev = self.world.stations[i].apps.drain_tap();
        self.taps[i].extend(ev);
    }

    /// Run until `t_end` (or a panic).  Handles the online actions; other actions are returned.
    pub fn run_until(&mut self, t_end: Us) -> Option<u32> {
        while let Some(t) = self.world.next_time() {
            if t > t_end {
                break;
            }
            // logical hang detection: loop-iteration budget per poll() call
            profirust::verif::set_fuel(200_000);
            match self.world.step() {
                Some(Stepped::Polled(i)) => {
                    self.sample(i);
                    if self.world.stations[i].panic.is_some() {
                        return None;
                    }
                }
                Some(Stepped::Action(id)) if (id as usize) < self.online.len() => {
                    let i = id as usize;
                    self.world.stations[i].running = true;
                    self.world.set_online(i);
                    self.online[i] = true;
                    self.last_online_change = self.world.now;
                }
                Some(Stepped::Action(id)) => return Some(id),
                _ => {}
            }
        }
        None
    }

    pub fn addr_of_port(&self, port: usize) -> Option<u8> {
        self.port_addr.get(&port).copied()
    }

    /// Online from the user's point of view: set online, being polled, and the station did not
    /// withdraw by itself (a station that twice sees its own address as a source goes offline on
    /// purpose — duplicate-address protection; `connectivity_state()` tells the user).
    pub fn is_up(&self, i: usize) -> bool {
        self.online[i] && self.world.stations[i].running && self.world.stations[i].fdl.connectivity_state().is_online()
    }

    pub fn online_addrs(&self) -> Vec<u8> {
        let mut v: Vec<u8> = (0..self.online.len()).filter(|i| self.is_up(*i)).map(|i| self.world.stations[i].addr).collect();
        v.sort();
        v
    }

    pub fn state_ok(&self) -> Result<(), String> {
        let on = self.online_addrs();
        for (i, st) in self.world.stations.iter().enumerate() {
            if !self.is_up(i) {
                continue;
            }
            let Some((_, s)) = self.snaps[i].last() else {
                return Err(format!("#{} never sampled", st.addr));
            };
            if !s.in_ring {
                return Err(format!("#{} not in ring", st.addr));
            }
            if s.las != on {
                return Err(format!("#{} LAS {:?} != online {:?}", st.addr, s.las, on));
            }
            let k = on.iter().position(|a| *a == st.addr).unwrap();
            let ns = on[(k + 1) % on.len()];
            let ps = on[(k + on.len() - 1) % on.len()];
            if s.ns != ns || s.ps != ps {
                return Err(format!("#{} NS/PS {}/{} != cyclic neighbours {}/{}", st.addr, s.ns, s.ps, ns, ps));
            }
        }
        Ok(())
    }
}

// ------------------------------------------------------------------------------------------------
// Trace monitors
// ------------------------------------------------------------------------------------------------

pub struct AccessStats {
    pub frames: u64,
    pub min_margin_initiated_bits: f64,
    pub min_margin_reply_bits: f64,
}

/// C01: no overlap, idle times, transmit authority.  `profirust_ports`: ports whose sender is a
/// profirust station (frames of harness devices are context, not checked).
pub fn mon_access(rep: &mut Report, run: &RingRun, prop: &str) {
    let bus = run.world.bus.borrow();
    let cfg = &run.cfg;
    let t33 = cfg.bits(33);
    let t11 = cfg.bits(11);
    let is_station_port = |p: usize| run.world.stations.iter().any(|s| s.phy.port == p);
    // authority automaton state
    let mut holder: Option<u8> = None;
    let mut prev_holder: Option<u8> = None; // who passed the token last
    let mut others_since_pass = false; // somebody other than prev_holder transmitted since the pass
    let mut pending_req: Option<(u8, u8)> = None; // (requester, target) of the immediately preceding request
    let online_at: BTreeMap<u8, Us> = cfg.stations.iter().map(|s| (s.addr, s.online_at)).collect();
    let mut prev_end: Us = -1;
    let mut prev: Option<&TxRec> = None;
    for f in bus.trace.iter() {
        let sender = run.addr_of_port(f.sender);
        let mine = is_station_port(f.sender);
        let gap = f.start - prev_end;
        if mine {
            rep.count(&format!("{}_frames_checked", prop));
        }
        // 1. no overlap
        if prev.is_some() && f.start < prev_end {
            if mine || prev.map(|p| is_station_port(p.sender)).unwrap_or(false) {
                rep.violation(
                    format!("{}/overlap", prop),
                    format!("{} started transmitting at {}us while the transmission of {} runs until {}us ({})", fmt_sender(sender), f.start, fmt_sender(prev.and_then(|p| run.addr_of_port(p.sender))), prev_end, cfg.json().render()),
                );
                return;
            }
        }
        let Some(tel) = &f.decoded else {
            if mine {
                rep.violation(format!("{}/undecodable-frame-sent", prop), format!("{} sent {}", fmt_sender(sender), hex(&f.bytes)));
                return;
            }
            prev_end = prev_end.max(f.end);
            prev = Some(f);
            pending_req = None;
            continue;
        };
        let sa = sender.unwrap_or(255);
        let is_reply = tel.is_response() || matches!(tel, RTel::Sc);
        // 2. idle time
        if mine && prev.is_some() {
            if is_reply {
                let margin = (gap - t11) as f64 * cfg.baud.to_rate() as f64 / 1e6;
                rep.min(&format!("{}_min_reply_idle_margin_bits", prop), margin);
                if gap < t11 - 1 {
                    rep.violation(format!("{}/idle-time/reply", prop), format!("reply of #{} starts {}us after the request (min Tsdr 11 bit = {}us) ({})", sa, gap, t11, cfg.json().render()));
                    return;
                }
                rep.count(&format!("{}_reply_idle_times_checked", prop));
            } else {
                let margin = (gap - t33) as f64 * cfg.baud.to_rate() as f64 / 1e6;
                rep.min(&format!("{}_min_initiated_idle_margin_bits", prop), margin);
                if gap < t33 - 1 {
                    rep.violation(
                        format!("{}/idle-time/initiated", prop),
                        format!("#{} starts {} only {}us after the previous telegram ended (sync pause 33 bit = {}us) ({})", sa, tel.short(), gap, t33, cfg.json().render()),
                    );
                    return;
                }
                rep.count(&format!("{}_initiated_idle_times_checked", prop));
            }
        }
        // 3. authority
        if mine {
            let telsa = tel.sa();
            if let Some(x) = telsa {
                if x != sa {
                    rep.violation(format!("{}/authority/foreign-source-address", prop), format!("#{} sent {} with a foreign source address", sa, tel.short()));
                    return;
                }
            }
            let verdict: Result<&'static str, String> = match tel {
                RTel::Token { da, .. } => {
                    if holder == Some(sa) {
                        Ok("a-holder")
                    } else if prev_holder == Some(sa) && !others_since_pass {
                        Ok("b-retry-of-own-pass")
                    } else if *da == sa {
                        // claim: silence since the later of last bus activity and own set_online
                        let since = prev_end.max(*online_at.get(&sa).unwrap_or(&0));
                        let silence = f.start - since;
                        let need = cfg.token_lost_timeout(sa);
                        if silence >= need - 1 {
                            Ok("d-claim-after-timeout")
                        } else {
                            Err(format!("claims the token after only {}us of silence (its time-out is {}us)", silence, need))
                        }
                    } else {
                        Err(format!("passes a token it does not hold (holder {:?}, last pass by {:?})", holder, prev_holder))
                    }
                }
                RTel::Data { fc, .. } if fc.is_req() => {
                    if holder == Some(sa) {
                        Ok("a-holder")
                    } else {
                        Err(format!("sends a request without holding the token (holder {:?})", holder))
                    }
                }
                _ => {
                    // response or SC
                    match pending_req {
                        Some((_, target)) if target == sa => Ok("c-answer-to-request"),
                        _ => Err(format!("sends {} although the preceding telegram was not a request addressed to it", tel.short())),
                    }
                }
            };
            match verdict {
                Ok(case) => rep.count(&format!("{}_authority_{}", prop, case)),
                Err(why) => {
                    rep.violation(
                        format!("{}/authority/{}", prop, match tel {
                            RTel::Token { da, .. } if *da == sa => "claim",
                            RTel::Token { .. } => "token",
                            RTel::Data { fc, .. } if fc.is_req() => "request",
                            _ => "reply",
                        }),
                        format!("at {}us #{} {} ({})", f.start, sa, why, cfg.json().render()),
                    );
                    return;
                }
            }
        }
        // automaton update
        match tel {
            RTel::Token { da, sa: tsa } => {
                if prev_holder != Some(*tsa) || holder == Some(*tsa) {
                    // a fresh pass (not a retry)
                }
                prev_holder = Some(*tsa);
                holder = Some(*da);
                others_since_pass = false;
                pending_req = None;
            }
            RTel::Data { da, sa: dsa, fc, .. } if fc.is_req() => {
                if prev_holder != Some(*dsa) {
                    others_since_pass = true;
                }
                pending_req = if fc.expects_reply() { Some((*dsa, *da)) } else { None };
            }
            _ => {
                others_since_pass = true;
                pending_req = None;
            }
        }
        if let (Some(h), Some(s)) = (holder, sender) {
            if s == h && !tel.is_token() {
                // the holder acted: the previous holder may not retry any more
                others_since_pass = true;
            }
        }
        prev_end = prev_end.max(f.end);
        prev = Some(f);
    }
    // PHY contract
    for b in run.world.breaches() {
        rep.violation(format!("{}/phy-contract", prop), b);
        return;
    }
}

fn fmt_sender(a: Option<u8>) -> String {
    a.map(|a| format!("#{}", a)).unwrap_or("?".into())
}

/// Token flow after `from`: every token frame goes from its sender to the sender's cyclic successor
/// among `online`, no retries.  Returns Err(time, why) for the first bad frame.
pub fn token_flow_bad_after(run: &RingRun, from: Us, online: &[u8]) -> Option<(Us, String)> {
    let bus = run.world.bus.borrow();
    let mut last_token: Option<(u8, u8)> = None;
    for f in bus.trace.iter() {
        let Some(RTel::Token { da, sa }) = &f.decoded else {
            if f.start >= from && f.decoded.is_none() {
                return Some((f.start, "undecodable frame".into()));
            }
            if f.decoded.is_some() {
                // any other traffic ends the "same token again" window
            }
            continue;
        };
        if f.start < from {
            last_token = Some((*sa, *da));
            continue;
        }
        let Some(k) = online.iter().position(|a| a == sa) else {
            return Some((f.start, format!("token sent by #{} which is not online", sa)));
        };
        let succ = online[(k + 1) % online.len()];
        if *da != succ {
            return Some((f.start, format!("token {}->{} but the successor of #{} is #{}", sa, da, sa, succ)));
        }
        if last_token == Some((*sa, *da)) && online.len() > 1 {
            return Some((f.start, format!("token {}->{} repeated (retry)", sa, da)));
        }
        last_token = Some((*sa, *da));
    }
    None
}

/// Number of complete rotations (token frames sent by the lowest online address) in [from, to].
pub fn rotations_between(run: &RingRun, from: Us, to: Us, online: &[u8]) -> u64 {
    let Some(low) = online.first() else { return 0 };
    let bus = run.world.bus.borrow();
    bus.trace
        .iter()
        .filter(|f| f.start >= from && f.start <= to)
        .filter(|f| matches!(&f.decoded, Some(RTel::Token { sa, .. }) if sa == low))
        .count() as u64
}

// ------------------------------------------------------------------------------------------------
// The C01 / C02 ring run
// ------------------------------------------------------------------------------------------------

pub struct ConvResult {
    pub converged_at: Option<Us>,
    pub t0: Us,
    pub bound: Us,
    pub stable_rotations: u64,
}

/// Run a fault-free ring until it has converged and stayed converged for `want_rot` rotations, or
/// until the bound is exceeded.  Applies the C02 rules; returns the convergence data.
/// `strict`: report convergence / stability problems as violations of `prop` (C02, C06); otherwise
/// they are only counted (C01 and C13 judge other rules on the same runs and must not raise C02 alarms).
pub fn run_to_convergence(rep: &mut Report, run: &mut RingRun, prop: &str, want_rot: u64, strict: bool) -> Option<ConvResult> {
    let mut tmp = Report::default();
    tmp.cur_case = rep.cur_case.clone();
    tmp.verbose = rep.verbose;
    let t_all_online = run.cfg.stations.iter().map(|s| s.online_at).max().unwrap();
    let bound = run.cfg.b_conv();
    let r = converge(&mut tmp, run, prop, t_all_online, bound, 0, want_rot);
    if strict {
        for v in tmp.violations {
            rep.violation(v.sig, v.what);
        }
    } else {
        for v in &tmp.violations {
            let kind = v.sig.split('/').nth(1).unwrap_or("other").to_string();
            rep.count(&format!("{}_runs_with_ring_problem_{}_not_judged_here", prop, kind));
        }
    }
    rep.inconclusive += tmp.inconclusive;
    rep.inconclusive_notes.extend(tmp.inconclusive_notes);
    r
}

/// Core of the bounded-convergence rule.  `t_all_online` = T0 (last population change / last
/// disturbance), `bound` = B_conv / B_rec.  Until `grace_until` a ring that looked converged may
/// fall apart again without that being a stability violation (aftermath of a disturbance).
pub fn converge(rep: &mut Report, run: &mut RingRun, prop: &str, t_all_online: Us, bound: Us, grace_until: Us, want_rot: u64) -> Option<ConvResult> {
    let cfg = run.cfg.clone();
    // estimated rotation time: with traffic applications a station may hold the token for up to TTR
    let has_traffic = cfg.stations.iter().any(|s| s.app >= 2);
    let ttr_max = cfg.stations.iter().map(|s| cfg.bits(s.ttr_bits as u64)).max().unwrap_or(0);
    let step = (cfg.stations.len() as i64 * cfg.t_visit()).max(1000) + if has_traffic { ttr_max } else { 0 };
    let mut converged_at: Option<Us> = None;
    // start of the current window in which state samples and token flow were all proper
    let mut ok_since: Option<Us> = None;
    // incremental scan of the trace
    let mut scan_idx: usize = run.world.bus.borrow().trace.len();
    let mut last_token: Option<(u8, u8)> = None;
    let mut rots_in_window: u64 = 0;
    let mut rots_since_converged: u64 = 0;
    let hard_end = t_all_online + bound + (want_rot as i64 + 10) * step * 2;
    let mut t_cursor = run.world.now;
    loop {
        // (the world's clock only moves with events; keep an own cursor so that quiet periods pass)
        let t_next = t_cursor.max(run.world.now) + step;
        run.run_until(t_next);
        t_cursor = t_next;
        if let Some((i, p)) = run.world.any_panic() {
            let addr = run.world.stations[i].addr;
            rep.violation(format!("{}/panic/{}", prop, p.class()), format!("#{} panicked at {}us: {} ({})", addr, run.world.now, p.message, cfg.json().render()));
            return None;
        }
        let now = t_cursor;
        if now < t_all_online {
            scan_idx = run.world.bus.borrow().trace.len();
            continue;
        }
        let on = run.online_addrs();
        if on.is_empty() {
            return None;
        }
        let ok = run.state_ok();
        let mut bad: Option<(Us, String, &'static str)> = None;
        if let Err(e) = &ok {
            bad = Some((now, e.clone(), "state"));
        }
        // scan the new frames
        {
            let bus = run.world.bus.borrow();
            let low = on[0];
            while scan_idx < bus.trace.len() {
                let f = &bus.trace[scan_idx];
                scan_idx += 1;
                let mut frame_bad: Option<String> = None;
                match &f.decoded {
                    None => frame_bad = Some("undecodable frame".into()),
                    Some(RTel::Token { da, sa }) => {
                        match on.iter().position(|a| a == sa) {
                            None => frame_bad = Some(format!("token sent by #{} which is not online", sa)),
                            Some(k) => {
                                let succ = on[(k + 1) % on.len()];
                                if *da != succ {
                                    frame_bad = Some(format!("token {}->{} but the successor of #{} is #{}", sa, da, sa, succ));
                                } else if last_token == Some((*sa, *da)) && on.len() > 1 {
                                    frame_bad = Some(format!("token {}->{} repeated (retry)", sa, da));
                                }
                            }
                        }
                        last_token = Some((*sa, *da));
                        if frame_bad.is_none() && *sa == low {
                            rots_in_window += 1;
                            if converged_at.is_some() {
                                rots_since_converged += 1;
                            }
                        }
                    }
                    Some(_) => {}
                }
                if f.collided && frame_bad.is_none() {
                    frame_bad = Some("collision".into());
                }
                if let Some(why) = frame_bad {
                    // the window restarts after this frame
                    if converged_at.is_some() && f.start > grace_until {
                        rep.violation(format!("{}/stability/token-flow", prop), format!("ring had converged at {}us but at {}us: {} ({})", converged_at.unwrap(), f.start, why, cfg.json().render()));
                        return None;
                    }
                    if converged_at.is_some() {
                        converged_at = None;
                        rep.count(&format!("{}_reconverged_after_aftermath", prop));
                    }
                    rots_in_window = 0;
                    rots_since_converged = 0;
                    if ok_since.is_some() {
                        ok_since = Some(f.start + 1);
                    }
                }
            }
        }
        match (&bad, ok_since) {
            (None, None) => {
                ok_since = Some(now);
                rots_in_window = 0;
            }
            (Some((t, why, _)), _) => {
                ok_since = None;
                rots_in_window = 0;
                rots_since_converged = 0;
                if converged_at.is_some() && *t <= grace_until {
                    converged_at = None;
                    rep.count(&format!("{}_reconverged_after_aftermath", prop));
                } else if converged_at.is_some() {
                    rep.violation(format!("{}/stability/state", prop), format!("ring had converged at {}us but at {}us: {} ({})", converged_at.unwrap(), t, why, cfg.json().render()));
                    return None;
                }
            }
            _ => {}
        }
        if let Some(since) = ok_since {
            if converged_at.is_none() && rots_in_window >= 3 {
                converged_at = Some(since);
                rots_since_converged = rots_in_window;
            }
            if let Some(c) = converged_at {
                if rots_since_converged >= want_rot + 3 {
                    return Some(ConvResult {
                        converged_at: Some(c),
                        t0: t_all_online,
                        bound,
                        stable_rotations: rots_since_converged,
                    });
                }
            }
        }
        if converged_at.is_none() && now > t_all_online + bound {
            let why = match run.state_ok() {
                Err(e) => e,
                Ok(()) => "token does not circulate in ascending order without retries".to_string(),
            };
            let (class, extra) = match classify_stuck(run, t_all_online) {
                Some((c, e)) => (c.to_string(), format!(" [{}]", e)),
                None => (cfg.class.to_string(), String::new()),
            };
            rep.violation(
                format!("{}/not-converged/{}", prop, class),
                format!("ring did not converge within the bound ({}us after T0 = {}us): {}{} ({})", bound, t_all_online, why, extra, cfg.json().render()),
            );
            return None;
        }
        if now > hard_end {
            rep.inconclusive(format!("run ended before {} stable rotations were observed", want_rot));
            return Some(ConvResult {
                converged_at,
                t0: t_all_online,
                bound,
                stable_rotations: 0,
            });
        }
    }
}

/// Two ways of being stuck have a recognisable mechanism of their own (DESIGN 7a, F16 and F17):
///  * two stations, each alone in its own ring view, transmit in lockstep: every frame of each overlaps a
///    frame of the other, so neither ever hears the other (no read-back of the own transmission);
///  * a listening station holds undecodable receive data that begins with a start delimiter value, waits
///    for the rest of that "telegram", and so never sees the status requests addressed to it.
fn classify_stuck(run: &RingRun, t0: Us) -> Option<(&'static str, String)> {
    let bus = run.world.bus.borrow();
    // (a) lockstep: since T0 nearly every frame overlapped another one, and the overlapping frames are the
    // traffic of stations that believe to be alone (tokens to themselves and GAP polls)
    {
        let since: Vec<&TxRec> = bus.trace.iter().filter(|f| f.start > t0).collect();
        let collided: Vec<&&TxRec> = since.iter().filter(|f| f.collided).collect();
        let senders: BTreeSet<usize> = collided.iter().map(|f| f.sender).collect();
        let self_tokens = collided.iter().filter(|f| matches!(&f.decoded, Some(RTel::Token { sa, da }) if sa == da)).count();
        if since.len() >= 30 && collided.len() * 10 >= since.len() * 8 && senders.len() >= 2 && self_tokens * 10 >= collided.len() * 3 {
            let who: Vec<Option<u8>> = senders.iter().map(|p| run.addr_of_port(*p)).collect();
            return Some((
                "two-lone-token-holders-in-lockstep",
                format!("{} of the {} frames since T0 overlapped another frame, {} of them tokens of a station to itself; stations {:?}", collided.len(), since.len(), self_tokens, who),
            ));
        }
    }
    // (b) misaligned listener
    for st in run.world.stations.iter() {
        // (a station that merely listens: waiting to be admitted, or -- dropped by the others without
        //  knowing it -- waiting in ActiveIdle for a token that never comes)
        let state = st.fdl.verif_probe().state;
        if !st.running || !(state == "ListenToken" || state == "ActiveIdle") {
            continue;
        }
        let rx = bus.peek_rx(st.phy.port);
        let waits_for_more = !rx.is_empty() && [crate::refcodec::SD1, crate::refcodec::SD2, crate::refcodec::SD3, crate::refcodec::SD4].contains(&rx[0]) && matches!(crate::refcodec::decode(&rx), crate::refcodec::Dec::NeedMore | crate::refcodec::Dec::NeedMoreOrReject);
        if !waits_for_more {
            continue;
        }
        let polls = bus.trace.iter().filter(|f| f.start > t0 && !f.collided && matches!(&f.decoded, Some(RTel::Data { da, fc, .. }) if *da == st.addr && fc.is_req())).count();
        let answers = bus.trace.iter().filter(|f| f.start > t0 && f.sender == st.phy.port).count();
        if polls >= 3 && answers == 0 {
            return Some((
                "listener-waits-on-false-start-delimiter",
                format!("#{} was polled {} times and never answered; its receive buffer holds {} (first byte is a start delimiter value, the decoder waits for more)", st.addr, polls, hex(&rx)),
            ));
        }
    }
    None
}

fn ring_fp(run: &RingRun) -> u64 {
    let cfg = &run.cfg;
    let mut fp = Fp::new();
    fp.u(cfg.baud.to_rate()).u(cfg.hsa as u64).u(cfg.gap as u64).s(cfg.start_mode).u(cfg.slot_bits as u64);
    for s in &cfg.stations {
        fp.u(s.addr as u64).u(s.app as u64);
        // bucketed poll phase
        fp.u((s.period * 8 / cfg.tslot().max(1)) as u64);
        fp.u((s.online_at / cfg.tslot().max(1)) as u64 & 0xff);
    }
    fp.get()
}

pub fn ring_case(rep: &mut Report, seed: u64, idx: u64, prop: &str, verbose: bool) {
    let mut rng = Rng::derive(seed, "ring", idx);
    // C01 quantifies over all application loads: every other case runs with traffic generators
    let with_apps = prop == "C13" || (prop == "C01" && idx % 2 == 1);
    let cfg = gen_ring_cfg(&mut rng, with_apps, true);
    rep.evaluations += 1;
    rep.cur_case = format!("ring {} seed {}", idx, seed);
    if verbose {
        eprintln!("{}", cfg.json().render());
    }
    let mut run = build_ring(&cfg, rng.next_u64());
    let want = if prop == "C02" { 30 } else { 20 };
    let res = run_to_convergence(rep, &mut run, prop, want, prop == "C02");
    if verbose {
        dump_trace(&run, 400);
    }
    // C01 monitors over the whole trace (also of runs that did not converge)
    if prop == "C01" {
        mon_access(rep, &run, prop);
    }
    let Some(res) = res else { return };
    if let Some(c) = res.converged_at {
        let ratio = (c - res.t0).max(0) as f64 / res.bound as f64;
        rep.max(&format!("{}_max_time_to_converge_over_bound", prop), ratio);
        rep.count(&format!("{}_rings_converged", prop));
        rep.add(&format!("{}_stable_rotations_observed", prop), res.stable_rotations);
        rep.count(&format!("{}_class_{}", prop, cfg.class));
        rep.count(&format!("{}_start_{}", prop, cfg.start_mode));
        rep.count(&format!("{}_baud_{}", prop, cfg.baud.to_rate()));
        rep.count(&format!("{}_n_{}", prop, cfg.stations.len()));
        for (s, sub) in &run.probe_states {
            rep.set("fdl_states_reached", format!("{}/{}", s, sub));
        }
        // double-holder invariant in the converged phase
        if let Some((t, a, b)) = run.double_holders.iter().find(|(t, _, _)| *t > c) {
            rep.violation(format!("{}/two-token-holders", prop), format!("#{} and #{} both hold the token at {}us in a converged ring ({})", a, b, t, cfg.json().render()));
        }
        let n_tokens = run.world.bus.borrow().trace.iter().filter(|f| matches!(f.decoded, Some(RTel::Token { .. }))).count();
        if n_tokens > 10 {
            rep.nontrivial(ring_fp(&run));
        }
        if idx % 64 < 2 {
            rep.sample(J::obj(vec![
                ("kind", J::s("fault-free ring run")),
                ("config", cfg.json()),
                ("converged_after_us", J::I(c - res.t0)),
                ("bound_us", J::I(res.bound)),
                ("frames", J::U(run.world.bus.borrow().trace.len() as u64)),
                ("polls", J::U(run.world.polls)),
            ]));
        }
    }
    rep.add(&format!("{}_polls", prop), run.world.polls);
    rep.add(&format!("{}_frames", prop), run.world.bus.borrow().trace.len() as u64);
}

pub fn dump_trace(run: &RingRun, last: usize) {
    let bus = run.world.bus.borrow();
    let n = bus.trace.len();
    let from: Option<i64> = std::env::var("PBMON_DUMP_FROM").ok().and_then(|s| s.parse().ok());
    let skip = match from {
        Some(t) => bus.trace.iter().position(|f| f.start >= t).unwrap_or(0),
        None => n.saturating_sub(last),
    };
    for f in bus.trace.iter().skip(skip).take(last) {
        eprintln!(
            "  {:>10}..{:>10} {:>8} {}{}",
            f.start,
            f.end,
            fmt_sender(run.addr_of_port(f.sender)),
            f.decoded.as_ref().map(|t| t.short()).unwrap_or_else(|| format!("?? {}", hex(&f.bytes))),
            if f.collided { "  COLLIDED" } else { "" }
        );
    }
    for (i, s) in run.snaps.iter().enumerate() {
        if let Some((t, s)) = s.last() {
            eprintln!("  station #{} last change {}us: {:?}", run.world.stations[i].addr, t, s);
            let st = &run.world.stations[i];
            eprintln!("     probe {:?} running {} polls {} rx-pending {}", st.fdl.verif_probe(), st.running, st.polls, hex(&bus.peek_rx(st.phy.port)));
        }
    }
}

pub fn c01(ctx: &mut Ctx) {
    run_ring_prop(ctx, "C01", 4000, 160_000, 2);
}

pub fn c02(ctx: &mut Ctx) {
    if ctx.only.as_ref().map(|o| o[0].starts_with("las")).unwrap_or(false) {
        crate::eng_las::run(ctx, 0, 0, 0);
        return;
    }
    if ctx.tier != Tier::Miri {
        run_ring_prop(ctx, "C02", 4000, 400_000, 2);
    }
    if ctx.only.is_none() {
        crate::eng_las::run(ctx, 400_000, 40_000_000, 60);
    }
}

fn run_ring_prop(ctx: &mut Ctx, prop: &'static str, q: u64, t: u64, m: u64) {
    let seed = ctx.seed;
    if let Some(only) = ctx.only.clone() {
        if only[0] == "ring" {
            let idx: u64 = only[1].parse().unwrap();
            let s = if only.len() >= 4 { only[3].parse().unwrap_or(seed) } else { seed };
            ring_case(&mut ctx.rep, s, idx, prop, true);
        }
        return;
    }
    let n = ctx.n(q, t, m);
    for k in 0..n {
        let idx = ctx.shard + k * ctx.nshards;
        ring_case(&mut ctx.rep, seed, idx, prop, false);
    }
    let _ = Tier::Quick;
}
