//! Reference DP-V0 slave (passive bus device) with per-transaction fault injection.
//!
//! State machine Power_On/Wait_Prm -> Wait_Cfg -> Data_Exch, Set_Prm ident/lock handling, Chk_Cfg
//! comparison, Slave_Diag (6 bytes + optional extended diagnostics), "SAP not enabled" (RS) answers
//! outside Data_Exch, FCB/FCV retry detection (same FCB with FCV=1 => repeat the stored response
//! without re-executing), watchdog.  Written from the DP-V0 slave state machine, independent of the
//! master under test.

use crate::refcodec::{self as rc, RFc, RTel};
use crate::sim::Device;
use crate::util::Rng;
use crate::vbus::{bits_to_us, Us};
use std::cell::RefCell;
use std::rc::Rc;

#[derive(Clone, Copy, Debug, PartialEq, Eq, Hash)]
pub enum SlaveState {
    WaitPrm,
    WaitCfg,
    DataExch,
}

/// What happens to one transaction (one request of the master seen by this slave).
#[derive(Clone, Debug, PartialEq, Eq, Hash)]
pub enum Fault {
    None,
    /// the slave never sees the request
    RequestLost,
    /// the slave executes the request, the reply vanishes
    ReplyLost,
    /// the reply arrives damaged (FDL discards it)
    ReplyCorrupted,
    /// power cycle *before* this request is processed
    PowerCycle,
    /// the reply is replaced by something else (the slave still executes the request)
    WrongDsap,
    WrongSsap,
    ShortPdu,
    /// response status replaced by the given code
    Status(u8),
    DataInsteadOfSc,
    ScInsteadOfData,
    /// PDU length changed by the given delta (-1, +1) or set to 0 / 244
    Length(i16),
    ForeignSource,
    ForeignDestination,
    RequestInsteadOfResponse,
    TokenInstead,
    /// static diagnostics pending: Data_Exchange replies carry "data high" until diagnostics are read
    DiagPending,
    /// the slave's watchdog expires now (leaves Data_Exch)
    WatchdogExpiry,
    /// reply later than the slot time
    LateReply,
    /// the slave raises Prm_Req in its diagnostics (and signals diagnostics) although it stays in
    /// data exchange and does not report "not ready" — it wants to be parameterised again
    PrmReqOnly,
    /// the slave raises exactly one of the "not ready" flags of station status 1 (0x02 Station_Not_Ready,
    /// 0x04 Cfg_Fault, 0x40 Prm_Fault) in its diagnostics, and nothing else, until it is parameterised again
    FlagOnly(u8),
    /// not a fault of the slave: the harness calls request_diagnostics() on the master while this
    /// transaction's reply is in flight
    UserDiagRequest,
}

pub struct SlaveCore {
    /// flavour: a slave whose Chk_Cfg access point is only enabled once it has parameters answers a
    /// Chk_Cfg in Wait_Prm with "RS" (like the common ASICs do) instead of acknowledging and ignoring it
    pub strict_sap: bool,
    /// response status of this station's FDL status replies (0 = OK; a busy station may say RR etc.)
    pub status_reply_code: u8,
    pub addr: u8,
    pub ident: u16,
    pub cfg: Vec<u8>,
    pub in_len: usize,
    pub out_len: usize,
    pub state: SlaveState,
    pub master: Option<u8>,
    pub prm_fault: bool,
    pub cfg_fault: bool,
    pub not_ready_polls: u32,
    pub diag_pending: bool,
    pub ext_diag: Vec<u8>,
    pub ext_diag_flag: bool,
    pub extra_status1: u8,
    pub extra_status2: u8,
    pub wd_on: bool,
    pub sync: bool,
    pub freeze: bool,
    pub last_set_prm: Option<Vec<u8>>,
    pub last_chk_cfg: Option<Vec<u8>>,
    pub outputs: Vec<u8>,
    pub inputs: Vec<u8>,
    /// FCB retry detection: (fcb of the last executed request, stored response)
    pub last_fcb: Option<bool>,
    pub stored_response: Option<Vec<u8>>,
    pub transactions: u64,
    pub executed: u64,
    pub repeated: u64,
    pub dx_executed: u64,
    pub power_cycles: u64,
    /// inputs served with each executed Data_Exchange (most recent last), for cross-checks
    pub served_inputs: Vec<Vec<u8>>,
    /// if false the slave ignores everything (not present)
    pub present: bool,
    /// answer Slave_Diag with this PDU instead (for the C17 workloads)
    pub diag_override: Option<Vec<u8>>,
    pub is_dp_slave: bool,
}

impl SlaveCore {
    pub fn new(addr: u8, ident: u16, cfg: Vec<u8>, in_len: usize, out_len: usize) -> Self {
        SlaveCore {
            addr,
            ident,
            cfg,
            in_len,
            out_len,
            state: SlaveState::WaitPrm,
            master: None,
            prm_fault: false,
            cfg_fault: false,
            not_ready_polls: 0,
            diag_pending: false,
            ext_diag: Vec::new(),
            ext_diag_flag: false,
            strict_sap: false,
            status_reply_code: 0,
            extra_status1: 0,
            extra_status2: 0,
            wd_on: false,
            sync: false,
            freeze: false,
            last_set_prm: None,
            last_chk_cfg: None,
            outputs: vec![0; out_len],
            inputs: vec![0; in_len],
            last_fcb: None,
            stored_response: None,
            transactions: 0,
            executed: 0,
            repeated: 0,
            dx_executed: 0,
            power_cycles: 0,
            served_inputs: Vec::new(),
            present: true,
            diag_override: None,
            is_dp_slave: true,
        }
    }

    pub fn power_cycle(&mut self) {
        self.state = SlaveState::WaitPrm;
        self.master = None;
        self.prm_fault = false;
        self.cfg_fault = false;
        self.diag_pending = false;
        self.wd_on = false;
        self.sync = false;
        self.freeze = false;
        self.last_fcb = None;
        self.stored_response = None;
        self.outputs = vec![0; self.out_len];
        self.power_cycles += 1;
    }

    pub fn leave_data_exchange(&mut self) {
        self.state = SlaveState::WaitPrm;
        self.outputs = vec![0; self.out_len];
    }

    fn diag_pdu(&mut self) -> Vec<u8> {
        if let Some(p) = &self.diag_override {
            return p.clone();
        }
        let mut s1 = self.extra_status1;
        let mut s2 = 0x04 | self.extra_status2; // permanent bit
        let not_ready = self.state != SlaveState::DataExch || self.not_ready_polls > 0;
        if self.not_ready_polls > 0 {
            self.not_ready_polls -= 1;
        }
        if not_ready {
            s1 |= 0x02;
        }
        if self.cfg_fault {
            s1 |= 0x04;
        }
        if self.prm_fault {
            s1 |= 0x40;
        }
        if self.ext_diag_flag {
            s1 |= 0x08;
        }
        if self.state == SlaveState::WaitPrm {
            s2 |= 0x01; // Prm_Req
        }
        if self.diag_pending {
            s2 |= 0x02; // Stat_Diag
        }
        if self.wd_on {
            s2 |= 0x08;
        }
        if self.freeze {
            s2 |= 0x10;
        }
        if self.sync {
            s2 |= 0x20;
        }
        let mut pdu = vec![s1, s2, 0x00, self.master.unwrap_or(255), (self.ident >> 8) as u8, self.ident as u8];
        pdu.extend_from_slice(&self.ext_diag);
        // reading the diagnostics clears the static-diagnostics request
        self.diag_pending = false;
        pdu
    }

    fn resp(&self, to: u8, dsap: Option<u8>, ssap: Option<u8>, status: u8, pdu: Vec<u8>) -> RTel {
        RTel::Data {
            da: to,
            sa: self.addr,
            dsap,
            ssap,
            fc: RFc::Resp { state: 0, status },
            pdu,
        }
    }

    /// Execute a request; returns the reply frame (None = no reply, e.g. SDN).
    fn execute(&mut self, tel: &RTel, rng: &mut Rng) -> Option<Vec<u8>> {
        let RTel::Data { sa, dsap, ssap, fc, pdu, .. } = tel else { return None };
        let RFc::Req { code, .. } = fc else { return None };
        if *code == rc::REQ_FDL_STATUS {
            return rc::encode(&self.resp(*sa, None, None, self.status_reply_code, vec![]));
        }
        if !self.is_dp_slave {
            // a non-DP station: negative acknowledgement "SAP not enabled" for everything
            if fc.expects_reply() {
                return rc::encode(&self.resp(*sa, None, None, 3, vec![]));
            }
            return None;
        }
        if !fc.expects_reply() {
            // SDN (global control ...): consumed silently
            return None;
        }
        match (dsap, ssap) {
            (Some(60), Some(62)) => {
                let pdu = self.diag_pdu();
                rc::encode(&self.resp(*sa, Some(62), Some(60), 8, pdu))
            }
            (Some(61), Some(62)) => {
                // Set_Prm
                self.last_set_prm = Some(pdu.clone());
                if pdu.len() < 7 {
                    self.prm_fault = true;
                    return Some(vec![rc::SC]);
                }
                let ident = ((pdu[4] as u16) << 8) | pdu[5] as u16;
                if self.master.is_some() && self.master != Some(*sa) && pdu[0] & 0x80 != 0 && self.state != SlaveState::WaitPrm {
                    // locked by another master: ignore the parameters (Master_Lock would be reported)
                    return Some(vec![rc::SC]);
                }
                if ident != self.ident {
                    self.prm_fault = true;
                    self.state = SlaveState::WaitPrm;
                } else {
                    self.prm_fault = false;
                    self.cfg_fault = false;
                    self.extra_status2 &= !0x01;
                    self.extra_status1 = 0;
                    self.master = Some(*sa);
                    self.wd_on = pdu[0] & 0x08 != 0;
                    self.sync = pdu[0] & 0x20 != 0;
                    self.freeze = pdu[0] & 0x10 != 0;
                    self.state = SlaveState::WaitCfg;
                }
                Some(vec![rc::SC])
            }
            (Some(62), Some(62)) => {
                // Chk_Cfg
                self.last_chk_cfg = Some(pdu.clone());
                if self.state == SlaveState::WaitPrm {
                    // configuration before parameters: stays in Wait_Prm
                    if self.strict_sap {
                        return rc::encode(&self.resp(*sa, None, None, 3, vec![]));
                    }
                    return Some(vec![rc::SC]);
                }
                if *pdu == self.cfg {
                    self.cfg_fault = false;
                    self.state = SlaveState::DataExch;
                } else {
                    self.cfg_fault = true;
                    self.state = SlaveState::WaitPrm;
                }
                Some(vec![rc::SC])
            }
            (None, None) => {
                // Data_Exchange
                if self.state != SlaveState::DataExch || self.master != Some(*sa) {
                    return rc::encode(&self.resp(*sa, None, None, 3, vec![])); // RS: SAP not enabled
                }
                if pdu.len() != self.out_len {
                    // wrong output length: leave data exchange
                    self.leave_data_exchange();
                    self.cfg_fault = true;
                    return rc::encode(&self.resp(*sa, None, None, 3, vec![]));
                }
                self.outputs = pdu.clone();
                self.dx_executed += 1;
                self.inputs = rng.bytes(self.in_len);
                self.served_inputs.push(self.inputs.clone());
                if self.served_inputs.len() > 8 {
                    self.served_inputs.remove(0);
                }
                if self.in_len == 0 && !self.diag_pending {
                    return Some(vec![rc::SC]);
                }
                let status = if self.diag_pending { 10 } else { 8 };
                rc::encode(&self.resp(*sa, None, None, status, self.inputs.clone()))
            }
            _ => {
                // any other SAP: not enabled
                rc::encode(&self.resp(*sa, None, None, 3, vec![]))
            }
        }
    }
}

/// One entry of the per-slave transaction log (ground truth for the bounded-recovery rules only).
#[derive(Clone, Debug)]
pub struct Txn {
    pub t: Us,
    pub fault: Fault,
    pub executed: bool,
    pub repeated: bool,
    pub state_after: SlaveState,
}

pub struct RefSlave {
    pub port: usize,
    pub baud: profirust::Baudrate,
    pub core: Rc<RefCell<SlaveCore>>,
    /// per-transaction faults, consumed front to back; afterwards `random_fault_pct` applies
    pub script: Rc<RefCell<Vec<Fault>>>,
    pub random_fault_pct: Rc<RefCell<u64>>,
    pub random_alphabet: Vec<Fault>,
    pub log: Rc<RefCell<Vec<Txn>>>,
    pub min_tsdr_bits: u64,
    pub max_tsdr_bits: u64,
    /// a late reply starts `slot + 20 + [0, late_spread_bits)` bit times after the request
    pub late_spread_bits: u64,
    pub slot_bits: u64,
}

impl Device for RefSlave {
    fn port(&self) -> usize {
        self.port
    }

    fn on_frame(&mut self, now: Us, _sender_port: usize, tel: &RTel, _raw: &[u8], rng: &mut Rng) -> Option<(Us, Vec<u8>)> {
        let mut core = self.core.borrow_mut();
        if !core.present {
            return None;
        }
        let RTel::Data { da, sa, fc, .. } = tel else { return None };
        // broadcast / multicast SDN is consumed without transaction accounting
        if *da != core.addr {
            return None;
        }
        let RFc::Req { fcv, fcb, code } = fc else { return None };
        core.transactions += 1;
        // which fault applies to this transaction?
        let fault = {
            let mut script = self.script.borrow_mut();
            if !script.is_empty() {
                script.remove(0)
            } else {
                let pct = *self.random_fault_pct.borrow();
                if pct > 0 && rng.below(100) < pct && !self.random_alphabet.is_empty() {
                    rng.pick(&self.random_alphabet).clone()
                } else {
                    Fault::None
                }
            }
        };
        let mut txn = Txn {
            t: now,
            fault: fault.clone(),
            executed: false,
            repeated: false,
            state_after: core.state,
        };
        match fault {
            Fault::RequestLost => {
                self.log.borrow_mut().push(txn);
                return None;
            }
            Fault::PowerCycle => core.power_cycle(),
            Fault::DiagPending => core.diag_pending = true,
            Fault::PrmReqOnly => {
                core.extra_status2 |= 0x01;
                core.diag_pending = true;
            }
            Fault::FlagOnly(bit) => {
                core.extra_status1 |= bit;
                core.diag_pending = true;
            }
            Fault::WatchdogExpiry => {
                if core.state == SlaveState::DataExch {
                    core.leave_data_exchange();
                }
            }
            _ => {}
        }
        // FCB retry detection (FDL status requests carry no FCB and are always executed)
        let is_status = *code == rc::REQ_FDL_STATUS;
        let reply: Option<Vec<u8>> = if !is_status && *fcv && core.last_fcb == Some(*fcb) && core.stored_response.is_some() {
            core.repeated += 1;
            txn.repeated = true;
            core.stored_response.clone()
        } else {
            let r = core.execute(tel, rng);
            core.executed += 1;
            txn.executed = true;
            if !is_status {
                if *fcv || *fcb {
                    // FCV=0/FCB=1 starts a new sequence; FCV=1 continues it
                    core.last_fcb = Some(*fcb);
                    core.stored_response = r.clone();
                } else {
                    core.last_fcb = None;
                    core.stored_response = None;
                }
            }
            r
        };
        txn.state_after = core.state;
        self.log.borrow_mut().push(txn);
        let reply = reply?;
        let me = core.addr;
        drop(core);
        let tsdr = self.min_tsdr_bits + rng.below(self.max_tsdr_bits - self.min_tsdr_bits + 1);
        let mut delay = bits_to_us(self.baud, tsdr);
        // transform the reply according to the fault
        let orig = rc::decode_frame(&reply);
        let transformed: Option<Vec<u8>> = match (&fault, &orig) {
            (Fault::ReplyLost, _) => None,
            (Fault::ReplyCorrupted, _) => {
                let mut r = reply.clone();
                if r.len() == 1 {
                    r[0] ^= 0x10;
                } else {
                    let k = 1 + rng.usize(r.len() - 1);
                    r[k] ^= 1 << rng.usize(8);
                    // keep the start delimiter intact so that the frame is recognisably damaged
                }
                Some(r)
            }
            (Fault::LateReply, _) => {
                delay = bits_to_us(self.baud, self.slot_bits + 20 + rng.below(self.late_spread_bits));
                Some(reply.clone())
            }
            (Fault::ScInsteadOfData, _) => Some(vec![rc::SC]),
            (Fault::TokenInstead, _) => Some(vec![rc::SD4, *sa, me]),
            (Fault::DataInsteadOfSc, Some(RTel::Sc)) => rc::encode(&RTel::Data {
                da: *sa,
                sa: me,
                dsap: None,
                ssap: None,
                fc: RFc::Resp { state: 0, status: 8 },
                pdu: rng.bytes(rng.clone().usize(6)),
            }),
            (f, Some(RTel::Data { da, sa: rsa, dsap, ssap, fc, pdu })) => {
                let mut da = *da;
                let mut rsa = *rsa;
                let mut dsap = *dsap;
                let mut ssap = *ssap;
                let mut fc = *fc;
                let mut pdu = pdu.clone();
                match f {
                    Fault::WrongDsap => dsap = Some(dsap.map(|d| d ^ 1).unwrap_or(33)),
                    Fault::WrongSsap => ssap = Some(ssap.map(|d| d ^ 3).unwrap_or(34)),
                    Fault::ShortPdu => pdu.truncate(rng.usize(6.min(pdu.len() + 1))),
                    Fault::Status(s) => {
                        if let RFc::Resp { state, .. } = fc {
                            fc = RFc::Resp { state, status: *s };
                        }
                    }
                    Fault::Length(d) => {
                        let n = match *d {
                            0 => 0usize,
                            244 => 244,
                            d => (pdu.len() as i64 + d as i64).max(0) as usize,
                        };
                        let maxn = 246 - dsap.is_some() as usize - ssap.is_some() as usize;
                        let n = n.min(maxn);
                        if n < pdu.len() {
                            pdu.truncate(n);
                        } else {
                            while pdu.len() < n {
                                pdu.push(rng.u8());
                            }
                        }
                    }
                    Fault::ForeignSource => rsa = (rsa + 1 + rng.below(100) as u8) % 126,
                    Fault::ForeignDestination => da = (da + 1 + rng.below(100) as u8) % 126,
                    Fault::RequestInsteadOfResponse => {
                        fc = RFc::Req {
                            fcv: false,
                            fcb: false,
                            code: rc::REQ_SRD_LOW,
                        }
                    }
                    _ => {}
                }
                rc::encode(&RTel::Data { da, sa: rsa, dsap, ssap, fc, pdu })
            }
            _ => Some(reply.clone()),
        };
        transformed.map(|t| (delay, t))
    }
}
