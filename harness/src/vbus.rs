//! Virtual-time, byte-accurate PROFIBUS bus and the monitoring PHY.
//!
//! Integer microsecond time (the library's own resolution).  A transmission started at `start` makes
//! byte *k* visible to every other port at `start + bits_to_time(11·(k+1))` — bytes trickle in as on
//! a UART, no artificial framing.  Per-receiver delivery so that loss, corruption and truncation can
//! be injected per receiver and per telegram.  Overlapping transmissions garble the overlapped bytes
//! for every receiver and are recorded as collisions.  `MonPhy` implements `ProfibusPhy` and itself
//! monitors the PHY contract (no transmit/receive while the own transmission is in progress).

use crate::refcodec::{self as rc, RTel};
use crate::util::Rng;
use profirust::phy::ProfibusPhy;
use profirust::time::Instant;
use std::cell::RefCell;
use std::collections::VecDeque;
use std::rc::Rc;

pub type Us = i64;

pub fn bits_to_us(baud: profirust::Baudrate, bits: u64) -> Us {
    (bits * 1_000_000 / baud.to_rate()) as Us
}

pub const ALL_BAUDS: [profirust::Baudrate; 11] = [
    profirust::Baudrate::B9600,
    profirust::Baudrate::B19200,
    profirust::Baudrate::B31250,
    profirust::Baudrate::B45450,
    profirust::Baudrate::B93750,
    profirust::Baudrate::B187500,
    profirust::Baudrate::B500000,
    profirust::Baudrate::B1500000,
    profirust::Baudrate::B3000000,
    profirust::Baudrate::B6000000,
    profirust::Baudrate::B12000000,
];

pub fn min_slot_bits(baud: profirust::Baudrate) -> u16 {
    match baud.to_rate() {
        0..=187500 => 100,
        500000 => 200,
        1500000 => 300,
        3000000 => 400,
        6000000 => 600,
        _ => 1000,
    }
}

/// What a particular receiver gets of a transmission.
#[derive(Clone, Debug, PartialEq, Eq)]
pub enum Delivery {
    Normal,
    /// nothing arrives
    Drop,
    /// byte `pos` is xor-ed with `xor`
    Corrupt { pos: usize, xor: u8 },
    /// only the first `n` bytes arrive
    Truncate { n: usize },
    /// every byte replaced by noise
    Garble,
}

#[derive(Clone, Debug)]
pub struct FaultDecision {
    pub all: Delivery,
    /// overrides for individual ports
    pub per_port: Vec<(usize, Delivery)>,
}

impl FaultDecision {
    pub fn none() -> Self {
        FaultDecision {
            all: Delivery::Normal,
            per_port: Vec::new(),
        }
    }
    pub fn is_none(&self) -> bool {
        self.all == Delivery::Normal && self.per_port.is_empty()
    }
    pub fn for_port(&self, p: usize) -> &Delivery {
        self.per_port
            .iter()
            .find(|(q, _)| *q == p)
            .map(|(_, d)| d)
            .unwrap_or(&self.all)
    }
}

#[derive(Clone, Debug)]
pub struct TxRec {
    pub id: usize,
    pub start: Us,
    pub end: Us,
    pub sender: usize,
    pub bytes: Vec<u8>,
    pub collided: bool,
    pub truncated: bool,
    pub fault: FaultDecision,
    pub decoded: Option<RTel>,
    /// handed to the passive devices already?
    pub dispatched: bool,
}

#[derive(Clone, Copy, Debug)]
struct Inflight {
    at: Us,
    byte: u8,
    tx: usize,
}

pub struct Port {
    pub name: String,
    rx: Vec<u8>,
    inflight: VecDeque<Inflight>,
    tx_from: Us,
    tx_until: Us,
    pub breaches: Vec<String>,
    pub rx_total: u64,
    /// a device port does not buffer received bytes (devices see whole frames)
    pub is_device: bool,
}

pub struct Bus {
    pub baud: profirust::Baudrate,
    pub now: Us,
    pub ports: Vec<Port>,
    pub trace: Vec<TxRec>,
    pub busy_until: Us,
    pub collisions: u64,
    pub rng: Rng,
    /// decides the fate of each transmission; `None` = fault-free bus
    pub fault_fn: Option<Box<dyn FnMut(&TxRec, Us) -> FaultDecision>>,
    /// keep at most this many trace entries (0 = unlimited); older ones are handed to `trace_sink`
    pub trace_dropped: usize,
}

impl Bus {
    pub fn new(baud: profirust::Baudrate, seed: u64) -> Self {
        Bus {
            baud,
            now: 0,
            ports: Vec::new(),
            trace: Vec::new(),
            busy_until: -1,
            collisions: 0,
            rng: Rng::new(seed ^ 0xB05),
            fault_fn: None,
            trace_dropped: 0,
        }
    }

    pub fn add_port(&mut self, name: &str, is_device: bool) -> usize {
        self.ports.push(Port {
            name: name.to_string(),
            rx: Vec::new(),
            inflight: VecDeque::new(),
            tx_from: -1,
            tx_until: -1,
            breaches: Vec::new(),
            rx_total: 0,
            is_device,
        });
        self.ports.len() - 1
    }

    pub fn bits(&self, bits: u64) -> Us {
        bits_to_us(self.baud, bits)
    }

    /// Move all bytes that have arrived by `now` into the port's receive buffer.
    fn deliver(&mut self, p: usize, now: Us) {
        let port = &mut self.ports[p];
        while let Some(f) = port.inflight.front() {
            if f.at > now {
                break;
            }
            let f = port.inflight.pop_front().unwrap();
            // half duplex: nothing is received while the own transmitter is active
            let while_own_tx = f.at > port.tx_from && f.at <= port.tx_until;
            if !while_own_tx {
                port.rx.push(f.byte);
                port.rx_total += 1;
            }
        }
    }

    pub fn is_transmitting(&self, p: usize, now: Us) -> bool {
        now < self.ports[p].tx_until
    }

    pub fn flush_rx(&mut self, p: usize, now: Us) {
        self.deliver(p, now);
        self.ports[p].rx.clear();
    }

    /// Make bytes visible to port `p` right now (chunk injection for the receive-path workloads).
    pub fn inject(&mut self, p: usize, bytes: &[u8]) {
        self.ports[p].rx.extend_from_slice(bytes);
        self.ports[p].rx_total += bytes.len() as u64;
    }

    pub fn peek_rx(&self, p: usize) -> Vec<u8> {
        self.ports[p].rx.clone()
    }

    pub fn pending_rx(&mut self, p: usize, now: Us) -> usize {
        self.deliver(p, now);
        self.ports[p].rx.len()
    }

    /// Start a transmission.  Returns the trace id.
    pub fn start_tx(&mut self, sender: usize, now: Us, bytes: &[u8]) -> usize {
        debug_assert!(!bytes.is_empty());
        self.deliver(sender, now);
        let id = self.trace.len() + self.trace_dropped;
        let end = now + self.bits(11 * bytes.len() as u64);
        let mut rec = TxRec {
            id,
            start: now,
            end,
            sender,
            bytes: bytes.to_vec(),
            collided: false,
            truncated: false,
            fault: FaultDecision::none(),
            decoded: rc::decode_frame(bytes),
            dispatched: false,
        };
        // collision with a transmission in progress?
        let overlap_until = self.busy_until;
        if now < overlap_until {
            rec.collided = true;
            self.collisions += 1;
            if let Some(prev) = self.trace.last_mut() {
                prev.collided = true;
            }
            // garble what is still in flight from the earlier transmission(s)
            for port in self.ports.iter_mut() {
                for f in port.inflight.iter_mut() {
                    if f.at > now {
                        f.byte ^= 1 + (self.rng.u8() % 255);
                    }
                }
            }
        }
        if let Some(f) = self.fault_fn.as_mut() {
            rec.fault = f(&rec, now);
        }
        let nports = self.ports.len();
        for p in 0..nports {
            if p == sender || self.ports[p].is_device {
                continue;
            }
            let d = rec.fault.for_port(p).clone();
            for (k, b) in bytes.iter().enumerate() {
                let at = now + self.bits(11 * (k as u64 + 1));
                let byte_start = now + self.bits(11 * k as u64);
                let mut byte = *b;
                match &d {
                    Delivery::Normal => {}
                    Delivery::Drop => continue,
                    Delivery::Corrupt { pos, xor } => {
                        if *pos == k {
                            byte ^= *xor;
                        }
                    }
                    Delivery::Truncate { n } => {
                        if k >= *n {
                            continue;
                        }
                    }
                    Delivery::Garble => byte = self.rng.u8(),
                }
                if byte_start < overlap_until {
                    byte ^= 1 + (self.rng.u8() % 255);
                }
                // keep the queue sorted by arrival time (overlapping transmissions interleave)
                let q = &mut self.ports[p].inflight;
                let item = Inflight { at, byte, tx: id };
                if q.back().map(|l| l.at <= at).unwrap_or(true) {
                    q.push_back(item);
                } else {
                    let pos = q.iter().position(|f| f.at > at).unwrap_or(q.len());
                    q.insert(pos, item);
                }
            }
        }
        let port = &mut self.ports[sender];
        port.tx_from = now;
        port.tx_until = end;
        self.busy_until = self.busy_until.max(end);
        self.trace.push(rec);
        id
    }

    /// The sender dies at `now`: bytes not yet on the wire are never sent.
    pub fn abort_tx_of(&mut self, sender: usize, now: Us) {
        let dropped = self.trace_dropped;
        let Some(rec) = self.trace.iter_mut().rev().find(|r| r.sender == sender) else {
            return;
        };
        if rec.end <= now {
            return;
        }
        let id = rec.id;
        let sent = ((now - rec.start).max(0) as u64 * self.baud.to_rate() / 1_000_000 / 11) as usize;
        rec.bytes.truncate(sent.max(1).min(rec.bytes.len()));
        rec.truncated = true;
        rec.end = rec.start + bits_to_us(self.baud, 11 * rec.bytes.len() as u64);
        rec.decoded = None;
        let new_end = rec.end;
        let _ = dropped;
        for port in self.ports.iter_mut() {
            port.inflight.retain(|f| !(f.tx == id && f.at > new_end));
        }
        self.ports[sender].tx_until = new_end;
        self.busy_until = self.trace.iter().rev().take(4).map(|r| r.end).max().unwrap_or(new_end);
    }

    /// Transmissions that are complete at `now` and were not yet handed to the devices.
    pub fn take_completed(&mut self, now: Us) -> Vec<usize> {
        let mut v = Vec::new();
        let n = self.trace.len();
        // only the tail can be undispatched
        let mut i = n;
        while i > 0 && !self.trace[i - 1].dispatched {
            i -= 1;
        }
        for k in i..n {
            if self.trace[k].end <= now {
                self.trace[k].dispatched = true;
                v.push(k);
            } else {
                break;
            }
        }
        v
    }
}

/// The PHY handed to `FdlActiveStation::poll`.
pub struct MonPhy {
    pub bus: Rc<RefCell<Bus>>,
    pub port: usize,
    buf: Vec<u8>,
}

impl MonPhy {
    pub fn new(bus: &Rc<RefCell<Bus>>, name: &str) -> Self {
        let port = bus.borrow_mut().add_port(name, false);
        MonPhy {
            bus: bus.clone(),
            port,
            buf: vec![0u8; 256],
        }
    }
    pub fn flush(&mut self, now: Us) {
        self.bus.borrow_mut().flush_rx(self.port, now);
    }
}

impl ProfibusPhy for MonPhy {
    fn poll_transmission(&mut self, now: Instant) -> bool {
        self.bus.borrow().is_transmitting(self.port, now.total_micros())
    }

    fn transmit_data<F, R>(&mut self, now: Instant, f: F) -> R
    where
        F: FnOnce(&mut [u8]) -> (usize, R),
    {
        let t = now.total_micros();
        self.buf.iter_mut().for_each(|b| *b = 0);
        let (len, res) = f(&mut self.buf);
        let mut bus = self.bus.borrow_mut();
        if len > 0 {
            if bus.is_transmitting(self.port, t) {
                let name = bus.ports[self.port].name.clone();
                bus.ports[self.port]
                    .breaches
                    .push(format!("{} called transmit at {} while its own transmission is in progress", name, t));
            }
            if len > 256 {
                bus.ports[self.port].breaches.push(format!("transmit of {} bytes (> 256 byte buffer)", len));
            }
            let len = len.min(256);
            let bytes = self.buf[..len].to_vec();
            bus.start_tx(self.port, t, &bytes);
        }
        res
    }

    fn receive_data<F, R>(&mut self, now: Instant, f: F) -> R
    where
        F: FnOnce(&[u8]) -> (usize, R),
    {
        let t = now.total_micros();
        let pending: Vec<u8> = {
            let mut bus = self.bus.borrow_mut();
            if bus.is_transmitting(self.port, t) {
                let name = bus.ports[self.port].name.clone();
                bus.ports[self.port]
                    .breaches
                    .push(format!("{} called receive at {} while its own transmission is in progress", name, t));
            }
            bus.deliver(self.port, t);
            // hand out a copy so that the closure can call back into the library freely
            bus.ports[self.port].rx.clone()
        };
        let (drop, res) = f(&pending);
        let mut bus = self.bus.borrow_mut();
        if drop > pending.len() {
            bus.ports[self.port]
                .breaches
                .push(format!("receive closure dropped {} of {} pending bytes", drop, pending.len()));
        }
        let drop = drop.min(pending.len());
        bus.ports[self.port].rx.drain(..drop);
        res
    }
}
