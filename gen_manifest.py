#!/usr/bin/env python3
"""Generate MANIFEST.json from checks.json (kept in sync by construction)."""
import json, os
ROOT = os.path.dirname(os.path.abspath(__file__))
cfg = json.load(open(os.path.join(ROOT, "checks.json")))
props = [json.loads(l) for l in open(os.path.join(ROOT, "properties.jsonl"))]
hooks_commits = [l.strip() for l in open(os.path.join(ROOT, "hooks_commits.txt")) if l.strip()] if os.path.exists(os.path.join(ROOT, "hooks_commits.txt")) else []
checks = []
na = []
for p in props:
    pid = p["id"]
    c = cfg["checks"].get(pid)
    if c is None:
        na.append({"property_id": pid, "reason": cfg.get("not_applicable", {}).get(pid, "check not built yet in this round (runtime monitoring applies; see DESIGN.md section 6)")})
        continue
    checks.append({
        "property_id": pid,
        "quick_cmd": "./check %s quick" % pid,
        "thorough_cmd": "./check %s thorough" % pid,
        "evidence_file": "/verif/evidence/%s.json" % pid,
        "replay_cmd_template": "./check replay {path}",
        "engine": "pbmon",
        "level_claimed": {"category": c["level"], "text": c["text"], "design_ref": c["design_ref"]},
        "level_note": c["note"],
        "technique": c["technique"],
    })
m = {
    "version": 1,
    "setup_cmd": "./check build",
    "hooks": {
        "guard": "cargo feature verif-hooks (profirust crate), off by default",
        "enable": "harness/Cargo.toml depends on profirust = { path = \"/repo\", default-features = false, features = [\"std\", \"phy-simulator\", \"verif-hooks\"] }; every check rebuilds the harness (and thus /repo's working tree) with cargo build --release --offline",
        "baseline_off_cmd": "cd /repo && cargo test --workspace --no-fail-fast --offline",
        "source_commits": hooks_commits,
        "add_only": True,
    },
    "engines": [
        {"name": "pbmon", "path": "/verif/harness", "serves_properties": [c["property_id"] for c in checks],
         "kind_free_text": "Rust harness linking the real profirust/gsd-parser code: virtual-time byte-accurate bus, reference models (codec, DP slave, LAS, ext-diag parser, parameter packer), trace monitors; sharded over 16 worker processes by ./check (python driver: build, watchdog, merge, known findings, evidence)"},
    ],
    "checks": checks,
    "not_applicable": na,
    "notes": "Technique family: runtime monitoring and sanitizers. Verdicts are 'held on the executions listed in the evidence'. ./check exits 0 (held), 1 (VIOLATION line printed), 2 (harness error / inconclusive: never a VIOLATION). Known findings: known_findings.json.",
}
json.dump(m, open(os.path.join(ROOT, "MANIFEST.json"), "w"), indent=1)
print("MANIFEST.json: %d checks, %d not_applicable" % (len(checks), len(na)))
