#!/bin/bash
# For every kept sub-agent mutant: apply to /repo, run its property's quick check, revert.  Output $MUT/detect.tsv
set -u
MUT=${MUT:-/tmp/mut}
cd /repo; [ -z "$(git status --porcelain --untracked-files=no)" ] || { echo "/repo not clean"; exit 2; }
[ -n "${APPEND:-}" ] || : > $MUT/detect.tsv
for P in ${PROPS:-01 02 03 04 05 06 07 08 09 10 11 12 13 14 15 16 17 18 19 20}; do for m in m1 m2; do
  M=$MUT/C$P/$m
  cd /repo
  if ! git apply $M/patch.diff 2>/dev/null; then echo -e "C$P\t$m\tPATCH-DOES-NOT-APPLY" >> $MUT/detect.tsv; continue; fi
  extra=""
  [ "C$P" = "C05" ] && [ $m = m2 ] && extra="C17"
  [ "C$P" = "C02" ] && extra="C06"
  [ "C$P" = "C07" ] && [ $m = m2 ] && extra="C08"
  [ "C$P" = "C04" ] && [ $m = m2 ] && extra="C15"
  [ "C$P" = "C16" ] && [ $m = m2 ] && extra="C10"
  for Q in C$P $extra; do
    (cd /verif && ./check $Q quick) > $MUT/det.out 2>&1; rc=$?
    sigs=$(grep -E "signature:" $MUT/det.out | sed 's/.*signature: //' | sort -u | head -4 | tr '\n' ';')
    echo -e "C$P\t$m\t$Q\trc=$rc\t$sigs" >> $MUT/detect.tsv
  done
  cd /repo; git checkout -q -- .
done; done
echo DONE >> $MUT/detect.tsv
