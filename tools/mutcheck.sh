#!/bin/bash
# usage: mutcheck.sh <mutant dir with patch.diff demo.diff DEMO_CMD.txt> <worktree> [verify|detect PROP...]
# verify: confirm in the scratch worktree that (a) suite passes with patch, (b) demo fails with patch, (c) demo passes without.
# detect: apply patch to /repo, run ./check PROP quick for each PROP, revert.
set -u
M=$1; WT=$2; MODE=$3; shift 3
if [ "$MODE" = verify ]; then
  cd $WT || exit 2
  git checkout -q -- . ; git clean -fdq tests gsd-parser/tests gsdtool 2>/dev/null
  git apply $M/patch.diff || { echo "VERIFY: patch does not apply"; exit 2; }
  out=$(cargo test --workspace --no-fail-fast --offline 2>&1 | grep -E "^test result" | awk '{p+=$4; f+=$6} END{print p" passed "f" failed"}')
  echo "VERIFY suite with patch: $out"
  git apply $M/demo.diff || { echo "VERIFY: demo does not apply"; git checkout -q -- .; exit 2; }
  cmd=$(grep -v '^\s*$' $M/DEMO_CMD.txt | grep cargo | head -1 | sed 's/^.*\(cargo .*\)$/\1/')
  echo "VERIFY demo cmd: $cmd"
  (eval "$cmd") > /tmp/mutdemo.$$ 2>&1; rc1=$?
  echo "VERIFY demo with patch rc=$rc1 ($(grep -E '^test result' /tmp/mutdemo.$$ | tail -1))"
  git apply -R $M/patch.diff
  (eval "$cmd") > /tmp/mutdemo.$$ 2>&1; rc2=$?
  echo "VERIFY demo without patch rc=$rc2 ($(grep -E '^test result' /tmp/mutdemo.$$ | tail -1))"
  rm -f /tmp/mutdemo.$$
  git checkout -q -- . ; git clean -fdq tests gsd-parser/tests src 2>/dev/null
  case "$out" in *" 0 failed") ;; *) echo "VERIFY-RESULT: REJECT (suite fails)"; exit 1;; esac
  if [ $rc1 -ne 0 ] && [ $rc2 -eq 0 ]; then echo "VERIFY-RESULT: OK"; exit 0; else echo "VERIFY-RESULT: REJECT (demo rc $rc1/$rc2)"; exit 1; fi
else
  cd /repo || exit 2
  [ -z "$(git status --porcelain --untracked-files=no)" ] || { echo "/repo not clean"; exit 2; }
  git apply $M/patch.diff || { echo "DETECT: patch does not apply to /repo"; exit 2; }
  for P in "$@"; do
    (cd /verif && ./check $P quick) > /tmp/mutdet.$$ 2>&1; rc=$?
    echo "DETECT $P rc=$rc: $(grep -E '^VIOLATION|signature:' /tmp/mutdet.$$ | head -4 | tr '\n' ' ')"
    [ $rc -ne 1 ] && tail -3 /tmp/mutdet.$$
  done
  rm -f /tmp/mutdet.$$
  git checkout -q -- .
fi
