#!/usr/bin/env python3
"""Rewrite the seeded-change tables of DESIGN.md (between <!-- TABLE:x --> markers) from
seeded/*/meta.json as refreshed by tools/refresh_seeded_meta.py."""
import json, glob, os, re
rows = {'m': [], 'r2': [], 'r3': [], 'hist': []}
for p in sorted(glob.glob('/verif/seeded/*/meta.json')):
    name = os.path.basename(os.path.dirname(p))
    m = json.load(open(p))
    kind = 'hist' if name.startswith('hist-') else ('r2' if '-r2-' in name else ('r3' if '-r3-' in name else 'm'))
    summ = (m.get('summary') or '').replace('|', '/').replace('\n', ' ')
    if len(summ) > 170:
        summ = summ[:170] + '...'
    parts = []
    for r in m.get('detection', {}).get('results', []):
        if r['exit'] == 1:
            hits = r.get('violating_observations')
            parts.append('%s: %s%s' % (r['check'], ', '.join('`%s`' % s[:90] for s in r['signatures'][:2]), (' (%d violating observations)' % hits) if hits is not None else ''))
        else:
            parts.append('%s: silent' % r['check'])
    rows[kind].append('| %s | %s | %s |' % (name, summ, '; '.join(parts)))
heads = {'m': '| seeded change | what it is | reported as |', 'r2': '| seeded change (round 2) | what it is | reported as |',
         'r3': '| seeded change (round 3) | what it is | reported as |', 'hist': '| reversed commit | what | reported as |'}
extra = {'hist': ['| 7afb791 | reverse of "fix: receive buffer shrinking goes unnoticed, hiding the next telegram\'s arrival" | **not reported** — on the current tree the reversal alone no longer breaks the property (masked by the later repair `5fc29ed`, which resets `pending_bytes` before every transmission); not kept |']}
d = open('/verif/DESIGN.md').read()
for k in rows:
    block = heads[k] + '\n|---|---|---|\n' + '\n'.join(rows[k] + extra.get(k, []))
    d = re.sub(r'<!-- TABLE:%s -->.*?<!-- /TABLE:%s -->' % (k, k), lambda _: '<!-- TABLE:%s -->\n%s\n<!-- /TABLE:%s -->' % (k, block, k), d, flags=re.S)
d = d.replace('@@R3TABLE@@\n', '')
open('/verif/DESIGN.md', 'w').write(d)
print({k: len(v) for k, v in rows.items()})
