#!/bin/bash
# Verify every sub-agent mutant in a fresh scratch worktree of /repo's HEAD:
#  suite passes with the patch, demo fails with it, demo passes without it.  Writes $MUT/verify.tsv
set -u
MUT=${MUT:-/tmp/mut}
WT=/tmp/wt-verify
cd /repo && git worktree remove --force $WT 2>/dev/null; git worktree add -q --detach $WT HEAD && cp /repo/Cargo.lock $WT/
: > $MUT/verify.tsv
for P in 01 02 03 04 05 06 07 08 09 10 11 12 13 14 15 16 17 18 19 20; do for m in m1 m2; do
  M=$MUT/C$P/$m
  cd $WT; git checkout -q -- . ; git clean -fdq tests gsd-parser/tests src gsd-parser/src 2>/dev/null
  if ! git apply $M/patch.diff 2>/dev/null; then echo -e "C$P\t$m\tPATCH-DOES-NOT-APPLY" >> $MUT/verify.tsv; continue; fi
  suite=$(cargo test --workspace --no-fail-fast --offline 2>&1 | grep -E "^test result" | awk '{p+=$4; f+=$6} END{print p"/"f}')
  if ! git apply $M/demo.diff 2>/dev/null; then echo -e "C$P\t$m\tDEMO-DOES-NOT-APPLY\t$suite" >> $MUT/verify.tsv; continue; fi
  cmd=$(grep cargo $M/DEMO_CMD.txt | head -1 | sed 's/^.*\(cargo .*\)$/\1/')
  (eval "$cmd") > $MUT/demo.out 2>&1; rc1=$?
  git apply -R $M/patch.diff
  (eval "$cmd") > $MUT/demo.out 2>&1; rc2=$?
  echo -e "C$P\t$m\tsuite=$suite\tdemo_with_patch_rc=$rc1\tdemo_without_rc=$rc2\t$cmd" >> $MUT/verify.tsv
done; done
cd /repo && git worktree remove --force $WT
echo DONE >> $MUT/verify.tsv
