#!/usr/bin/env python3
"""Copy the verified sub-agent mutants from /tmp/mut into /verif/seeded/<id>/ with an augmented meta.json.
Inputs: /tmp/mut/verify.tsv (tools/verify_mutants.sh) and /tmp/mut/detect.tsv (tools/detect_mutants.sh)."""
import json, os, shutil, subprocess
MUT = os.environ.get('MUT', '/tmp/mut')
SUFFIX = os.environ.get('SUFFIX', '')  # e.g. r2- -> seeded/C01-r2-m1
SKIP = set(os.environ.get('SKIP', '').split())  # e.g. 'C02/m1'
head = subprocess.run(['git', '-C', '/repo', 'log', '--format=%h', '-1'], capture_output=True, text=True).stdout.strip()
ver = {}
for l in open(MUT + '/verify.tsv'):
    f = l.rstrip('\n').split('\t')
    if len(f) >= 5:
        ver[(f[0], f[1])] = f
det = {}
for l in open(MUT + '/detect.tsv'):
    f = l.rstrip('\n').split('\t')
    if len(f) >= 4:
        det.setdefault((f[0], f[1]), []).append({"check": f[2], "exit": int(f[3].split('=')[1]), "signatures": [s for s in (f[4] if len(f) > 4 else '').split(';') if s]})
kept, dropped = [], []
for (p, m), v in sorted(ver.items()):
    src = MUT + '/%s/%s' % (p, m)
    if '%s/%s' % (p, m) in SKIP:
        dropped.append((p, m, 'skipped'))
        continue
    ok = v[2] == 'suite=70/0' and v[3].endswith('=101') and v[4].endswith('=0')
    d = det.get((p, m), [])
    if not ok:
        dropped.append((p, m, v[2:5]))
        continue
    dst = '/verif/seeded/%s-%s%s' % (p, SUFFIX, m)
    os.makedirs(dst, exist_ok=True)
    for fn in ('patch.diff', 'patch.orig.diff', 'demo.diff', 'DEMO_CMD.txt'):
        if os.path.exists(os.path.join(src, fn)):
            shutil.copy(os.path.join(src, fn), os.path.join(dst, fn))
    try:
        meta = json.load(open(os.path.join(src, 'meta.json')))
    except Exception:
        meta = {}
    meta_out = {
        "property": p,
        "source": "independent sub-agent (given only the property text and a scratch worktree)",
        "summary": meta.get("summary"),
        "needs_to_manifest": meta.get("needs_to_manifest"),
        "why_tests_still_pass": meta.get("why_tests_still_pass"),
        "applies_to_repo_commit": head,
        "rebased": os.path.exists(os.path.join(src, 'patch.orig.diff')),
        "confirmed_by_me": {
            "how": "tools/verify_mutants.sh in a fresh scratch worktree of /repo HEAD (removed afterwards): apply patch.diff, cargo test --workspace --no-fail-fast --offline, apply demo.diff, run DEMO_CMD with and without the patch",
            "existing_suite_with_patch": "70 passed / 0 failed",
            "demo_with_patch_exit": 101,
            "demo_without_patch_exit": 0,
            "demo_cmd": v[5] if len(v) > 5 else None,
        },
        "detection": {"how": "tools/detect_mutants.sh: git -C /repo apply patch.diff; ./check <id> quick; git -C /repo checkout -- .", "results": d,
                      "detected_by_own_property_check": any(x["check"] == p and x["exit"] == 1 for x in d)},
    }
    json.dump(meta_out, open(os.path.join(dst, 'meta.json'), 'w'), indent=1)
    kept.append((p, m, meta_out["detection"]["detected_by_own_property_check"]))
print("kept", len(kept), "dropped", dropped)
print("not detected by own check:", [k for k in kept if not k[2]])
