#!/bin/bash
# For every kept change under /verif/seeded: apply it to /repo, run the quick check of its property (and of the
# other checks its meta.json lists), revert.  Writes /verif/seeded/DETECTION.tsv.  /repo must be clean.
set -u
cd /repo; [ -z "$(git status --porcelain --untracked-files=no)" ] || { echo "/repo not clean"; exit 2; }
OUT=/verif/seeded/DETECTION.tsv
TMP=$(mktemp)
: > $OUT
for D in ${ONLY:-/verif/seeded/*/}; do
  D=${D%/}; name=$(basename $D)
  [ -f $D/patch.diff ] || continue
  checks=$(python3 -c "
import json,sys
m=json.load(open('$D/meta.json'))
c=[m['property']]+[r['check'] for r in m.get('detection',{}).get('results',[])]
seen=[]
[seen.append(x) for x in c if x not in seen]
print(' '.join(seen))")
  cd /repo
  if ! git apply $D/patch.diff 2>/dev/null; then echo -e "$name\t-\tPATCH-DOES-NOT-APPLY" >> $OUT; continue; fi
  for Q in $checks; do
    (cd /verif && VERIF_SEED=${VERIF_SEED:-1} ./check $Q quick) > $TMP 2>&1; rc=$?
    sigs=$(grep -E "signature:" $TMP | sed 's/.*signature: //' | sort -u | head -4 | tr '\n' ';')
    hits=$(grep -oE "\[[0-9]+ violating observations" $TMP | grep -oE "[0-9]+" | head -1)
    echo -e "$name\t$Q\trc=$rc\t$sigs\thits=${hits:-?}" >> $OUT
  done
  cd /repo; git checkout -q -- .
done
rm -f $TMP
echo DONE >> $OUT
