#!/usr/bin/env python3
"""Refresh the `detection` block of every /verif/seeded/<id>/meta.json from seeded/DETECTION.tsv
(written by tools/detect_seeded.sh) and print the markdown tables used in DESIGN.md section 9."""
import json, os, collections
det = collections.OrderedDict()
for l in open('/verif/seeded/DETECTION.tsv'):
    f = l.rstrip('\n').split('\t')
    if len(f) < 3 or not f[2].startswith('rc='):
        continue
    r = {"check": f[1], "exit": int(f[2][3:]), "signatures": [s for s in (f[3] if len(f) > 3 else '').split(';') if s]}
    if len(f) > 4 and f[4].startswith('hits=') and f[4][5:].isdigit():
        r["violating_observations"] = int(f[4][5:])
    det.setdefault(f[0], []).append(r)
rows = {'m': [], 'r2': [], 'hist': []}
for name, res in det.items():
    p = '/verif/seeded/%s/meta.json' % name
    m = json.load(open(p))
    own = m['property']
    m['detection'] = {
        "how": "tools/detect_seeded.sh: git -C /repo apply patch.diff; ./check <id> quick (VERIF_SEED=1); git -C /repo checkout -- .",
        "results": res,
        "detected_by_own_property_check": any(r['check'] == own and r['exit'] == 1 for r in res),
        "detected": any(r['exit'] == 1 for r in res),
    }
    json.dump(m, open(p, 'w'), indent=1)
    kind = 'hist' if name.startswith('hist-') else ('r2' if '-r2-' in name else 'm')
    summ = (m.get('summary') or m.get('what') or '').replace('|', '/').replace('\n', ' ')
    if len(summ) > 170:
        summ = summ[:170] + '...'
    parts = []
    for r in res:
        if r['exit'] == 1:
            parts.append('%s: %s' % (r['check'], ', '.join('`%s`' % s[:90] for s in r['signatures'][:2])))
        else:
            parts.append('%s: silent' % r['check'])
    rows[kind].append('| %s | %s | %s |' % (name, summ, '; '.join(parts)))
for k in ('m', 'r2', 'hist'):
    print('### %s\n| seeded change | what it is | reported as |\n|---|---|---|' % k)
    print('\n'.join(rows[k]))
    print()
bad = [n for n, r in det.items() if not any(x['exit'] == 1 for x in r)]
thin = sorted((max([x.get('violating_observations', 0) for x in r if x['exit'] == 1] or [0]), n) for n, r in det.items())
print('THINNEST:', thin[:15])
print('NOT DETECTED:', bad)
