#!/bin/bash
# Reverse every fix: commit (the pre-fix tree is a mutant) and run the matching checks.  Output /tmp/hist/detect.tsv
set -u
cd /repo; [ -z "$(git status --porcelain --untracked-files=no)" ] || { echo "/repo not clean"; exit 2; }
: > /tmp/hist/detect.tsv
while read h props; do
  cd /repo
  if ! git apply /tmp/hist/$h.diff 2>/dev/null; then
     if ! git apply -3 /tmp/hist/$h.diff 2>/dev/null; then echo -e "$h\tPATCH-DOES-NOT-APPLY" >> /tmp/hist/detect.tsv; git checkout -q -- . ; git reset -q; continue; fi
     git reset -q
  fi
  git diff > /tmp/hist/$h.applied.diff
  for Q in $props; do
    (cd /verif && ./check $Q quick) > /tmp/hist/det.out 2>&1; rc=$?
    sigs=$(grep -E "signature:" /tmp/hist/det.out | sed 's/.*signature: //' | sort -u | head -3 | tr '\n' ';')
    echo -e "$h\t$Q\trc=$rc\t$sigs" >> /tmp/hist/detect.tsv
  done
  cd /repo; git checkout -q -- .
done <<LIST
9548b0b C17 C05
612ce4a C14 C05
da7920b C05 C14
9d1604c C07 C08
19d1485 C08
e70e0e6 C03
bb89b74 C05
8a21e7f C12 C02 C05
0244fb6 C05
d01b16c C10
e28f498 C20
aeb374d C20
5adfd65 C19
6b6fee5 C19
d6e1e4d C19
6831fb8 C19
52bdd00 C19
7afb791 C06
5fc29ed C07
88d43a7 C05
LIST
echo DONE >> /tmp/hist/detect.tsv
